/* repairmon - C19 "repair recovers all surviving data".
 *
 * One case = one history: random configuration + key universe, a histmon-style
 * history (puts / deletes / batches with value ids, explicit flushes, manual
 * per-level compactions, snapshots held across compactions, reopen cycles) with
 * scripted templates that make FILE NUMBERING CONTRADICT DATA AGE, a clean close
 * (data still in the WAL, or flushed), one metadata-loss variant (+ optional loss
 * or destruction of one data file), ldb_repair, ldb_open and the oracles:
 *
 *   expectation E = newest version BY SEQUENCE NUMBER of every user key in the
 *   surviving *.ldb / *.log files, computed with the independent decoders of
 *   refcodec (never with lcdb code), cross-checked against the model of
 *   acknowledged writes (model version == lcdb sequence number).
 *
 *   (i) ldb_get of every universe key == E   (ii) forward + backward scan == E
 *   (iii) lookups and iterators agree        (iv) follow-up writes take precedence,
 *   survive flush + compaction + reopen      (v) new files get numbers above
 *   everything on disk                       (vi) no table is lost: parsable
 *   tables stay live, unparsable ones are archived in lost/.
 *
 * The background thread is parked (iomon gate on its first table creation) while
 * the post-repair state is examined, so that what is checked is the state repair
 * produced and not the result of a compaction that happened to finish first.
 *
 * usage: repairmon --seed S --first I --count N --dir D [--steps-max K]
 *                  [--template auto|none|f4|tomb|snap|all] [--variant 0..6] [--extra 0..3] [--end wal|flushed]
 *   --steps-max K   history length is uniform in [100, K] (default 800); K < 100 = exactly K random steps
 *                   (K = 0 with --template f4 is the minimal scripted recipe on an empty database)
 *   --variant       0 del-current 1 del-manifest 2 del-both 3 trunc-manifest 4 flip-manifest
 *                   5 current-missing-target 6 current-garbage          (default: random per case)
 *   --extra         0 none 1 delete one table 2 delete the WAL 3 destroy one table (default: 80/8/6/6 %)
 *   RM_DEBUG=1      timing of the parts of a case on stderr
 *
 * Violation keys (property C19): get-stale-level0-file-number-order (the diagnosed shape of DESIGN
 * section 4, F4), get-stale, get-missing, get-phantom, get-value-never-written, get-status,
 * iter-mismatch, repair-failed, open-after-repair-failed, reopen-after-followup-failed,
 * new-write-shadowed, followup-lost-after-reopen, file-number-not-above-existing,
 * sequence-not-above-existing, intact-table-moved-to-lost, table-dropped-not-archived,
 * repaired-files-differ.
 */
#include <errno.h>
#include <fcntl.h>
#include <malloc.h>
#include <sys/stat.h>
#include <unistd.h>

#include "dbh.h"
#include "iomon.h"
#include "model.h"
#include "refcodec.h"
#include "vh.h"

#define PROP "C19"
#define MAX_SNAPS 6
#define MAX_VAL (1400 << 10)

enum { V_DEL_CURRENT, V_DEL_MANIFEST, V_DEL_BOTH, V_TRUNC_MANIFEST, V_FLIP_MANIFEST, V_CURRENT_MISSING,
       V_CURRENT_GARBAGE, V_KINDS };
static const char *variant_name[V_KINDS] = {"del-current", "del-manifest", "del-both", "trunc-manifest",
                                            "flip-manifest", "current-missing-target", "current-garbage"};
enum { X_NONE, X_DEL_TABLE, X_DEL_WAL, X_CORRUPT_TABLE, X_KINDS };
static const char *extra_name[X_KINDS] = {"none", "del-table", "del-wal", "corrupt-table"};
enum { T_F4 = 1, T_TOMB = 2, T_SNAP = 4 };

/* ------------------------------------------------------------------ */
/* decoded image of the data files of a directory (refcodec only) */

typedef struct dent_s {
  int row;          /* universe row */
  uint64_t seq;
  int type;         /* 1 value, 0 deletion */
  uint64_t file;
  int is_log;
  uint64_t ver;     /* model version carrying exactly this (type, value); 0 = none */
  uint32_t vlen;
} dent_t;

typedef struct dfile_s {
  uint64_t num;
  int is_log, ok;
  size_t nentries, size;
  char err[120];
} dfile_t;

typedef struct disk_s {
  dent_t *e; size_t n, cap;
  dfile_t *f; size_t nf, capf;
  size_t wal_records, wal_updates, wal_drops;
  size_t foreign, unmatched;
  uint64_t max_data_number;    /* tables + logs */
  uint64_t max_manifest;
  char problem[400];
} disk_t;

typedef struct exp_s {
  int have, present;
  uint64_t seq, file;
  int is_log, level;
  int ntables;       /* distinct tables holding versions of the key */
  int misordered;    /* highest-numbered table holding the key lacks its newest version */
  uint64_t pred_seq; /* what a number-ordered level-0 lookup would return */
  int pred_type;
} exp_t;

typedef struct res_s {
  int rc, found;
  uint64_t ver;      /* model version whose value equals the returned bytes; 0 = none */
  size_t len;
  uint64_t rawvid;
} res_t;

typedef struct snap_s { const ldb_snapshot_t *s; uint64_t ver; } snap_t;

typedef struct rm_s {
  dbh_t h;
  model_t m;
  vrng_t r;
  uint64_t seed;
  int caseidx, step, steps;
  snap_t snaps[MAX_SNAPS];
  int nsnaps;
  uint64_t next_vid;
  uint8_t *vbuf;
  int allow_big;
  int tmpl_mask, tmpl_done;
  int flushes, compactions, reopens, snaps_taken;
  /* repair part */
  int variant, extra, end_wal;
  uint64_t base_version;        /* model version at the clean close */
  exp_t *E;
  int *pre_level; size_t pre_level_cap;   /* table number -> level before the close */
  char pre_sig[64];
  int lost_data, nonlive;
  uint64_t corrupt_table;
  uint64_t max_before;          /* highest table/log/MANIFEST number in the directory before the repair-open */
  uint64_t old_manifest;
  char **post_names; int npost; /* directory listing after repair, before open */
  uint64_t *pre_tables; int *pre_table_ok; size_t npre_tables;
  int followup;                 /* 0 before, 1 after the follow-up writes */
  res_t *gres, *fres, *bres;
  disk_t diag; int diag_valid; layout_t diag_layout; int diag_layout_ok;
  struct { char key[48]; int n; } vk[24];
  int nvk;
  int f4_keys, other_viol;
} rm_t;

/* ------------------------------------------------------------------ */
/* small helpers */

static ldb_slice_t row_key(const rm_t *H, int row) {
  return ldb_slice(H->m.rows[row].key, H->m.rows[row].klen);
}

static const char *where(rm_t *H) {
  static char buf[500];
  snprintf(buf, sizeof(buf), "seed=%llu case=%d cfg=%s variant=%s extra=%s end=%s layout-before=%s",
           (unsigned long long)H->seed, H->caseidx, cfg_id(&H->h.cfg), variant_name[H->variant],
           extra_name[H->extra], H->end_wal ? "wal" : "flushed", H->pre_sig);
  return buf;
}

/* at most 2 messages per key per case, the rest is counted */
static void viol(rm_t *H, const char *key, const char *fmt, ...) __attribute__((format(printf, 3, 4)));

static void viol(rm_t *H, const char *key, const char *fmt, ...) {
  char msg[3000];
  va_list ap;
  int i;
  for (i = 0; i < H->nvk; i++) if (strcmp(H->vk[i].key, key) == 0) break;
  if (i == H->nvk && H->nvk < 24) { snprintf(H->vk[i].key, sizeof(H->vk[i].key), "%s", key); H->vk[i].n = 0; H->nvk++; }
  if (strcmp(key, "get-stale-level0-file-number-order") != 0) H->other_viol++;
  if (i < 24 && H->vk[i].n++ >= 2) { vh_count("violations_not_printed", 1); return; }
  va_start(ap, fmt);
  vsnprintf(msg, sizeof(msg), fmt, ap);
  va_end(ap);
  vh_violation(PROP, key, "%s | %s", msg, where(H));
}

static uint8_t *read_file(const char *path, size_t *n) {
  int fd = open(path, O_RDONLY);
  struct stat st;
  uint8_t *p;
  size_t got = 0;
  *n = 0;
  if (fd < 0) return NULL;
  if (fstat(fd, &st) != 0) { close(fd); return NULL; }
  p = malloc((size_t)st.st_size + 1);
  while (got < (size_t)st.st_size) {
    ssize_t k = read(fd, p + got, (size_t)st.st_size - got);
    if (k <= 0) break;
    got += (size_t)k;
  }
  close(fd);
  *n = got;
  return p;
}

static int write_file(const char *path, const void *p, size_t n) {
  int fd = open(path, O_WRONLY | O_CREAT | O_TRUNC, 0644);
  if (fd < 0) return -1;
  if (n > 0 && write(fd, p, n) != (ssize_t)n) { close(fd); return -1; }
  close(fd);
  return 0;
}

static const mver_t *ver_find(const rm_t *H, int row, uint64_t ver) {
  const mrow_t *r = &H->m.rows[row];
  size_t i;
  for (i = r->nv; i-- > 0;) {
    if (r->v[i].ver == ver) return &r->v[i];
    if (r->v[i].ver < ver) break;
  }
  return NULL;
}

static int ver_value_is(const mver_t *e, const uint8_t *p, size_t len) {
  return e != NULL && e->present && e->vlen == len && vh_check_value(p, len, e->vid);
}

/* model version whose value equals the bytes (prefer `prefer`, then newest); 0 = never written */
static uint64_t identify(const rm_t *H, int row, const uint8_t *p, size_t len, uint64_t prefer) {
  const mrow_t *r = &H->m.rows[row];
  size_t i;
  if (prefer != 0 && ver_value_is(ver_find(H, row, prefer), p, len)) return prefer;
  for (i = r->nv; i-- > 0;) if (ver_value_is(&r->v[i], p, len)) return r->v[i].ver;
  return 0;
}

/* ------------------------------------------------------------------ */
/* disk image */

static void disk_free(disk_t *d) { free(d->e); free(d->f); memset(d, 0, sizeof(*d)); }

static void disk_problem(disk_t *d, const char *fmt, ...) __attribute__((format(printf, 2, 3)));
static void disk_problem(disk_t *d, const char *fmt, ...) {
  va_list ap;
  if (d->problem[0]) return;
  va_start(ap, fmt);
  vsnprintf(d->problem, sizeof(d->problem), fmt, ap);
  va_end(ap);
}

typedef struct addctx_s { rm_t *H; disk_t *d; uint64_t file; int is_log; size_t added; } addctx_t;

static void disk_add(addctx_t *c, int type, const uint8_t *ukey, size_t uklen, const uint8_t *val, size_t vlen,
                     uint64_t seq) {
  disk_t *d = c->d;
  rm_t *H = c->H;
  dent_t *e;
  const mver_t *mv;
  int row = m_find(&H->m, ukey, uklen);
  if (row < 0) {
    d->foreign++;
    disk_problem(d, "%s #%llu holds key '%s' that is not in the universe", c->is_log ? "log" : "table",
                 (unsigned long long)c->file, vh_esc(ukey, uklen));
    return;
  }
  if (d->n == d->cap) { d->cap = d->cap ? d->cap * 2 : 1024; d->e = realloc(d->e, d->cap * sizeof(dent_t)); }
  e = &d->e[d->n++];
  e->row = row; e->seq = seq; e->type = type; e->file = c->file; e->is_log = c->is_log; e->vlen = (uint32_t)vlen;
  e->ver = 0;
  mv = ver_find(H, row, seq);
  if (type == 1) {
    if (ver_value_is(mv, val, vlen)) e->ver = seq;
    else e->ver = identify(H, row, val, vlen, 0);
  } else if (type == 0) {
    if (mv != NULL && !mv->present) e->ver = seq;
  }
  if (e->ver != seq && seq <= H->base_version) {
    d->unmatched++;
    disk_problem(d, "%s #%llu: key '%s' seq %llu type %d len %zu vid=%llx does not match the acknowledged write with that "
                 "sequence number (model: %s)", c->is_log ? "log" : "table", (unsigned long long)c->file,
                 vh_esc(ukey, uklen), (unsigned long long)seq, type, vlen,
                 (unsigned long long)vh_value_vid(val, vlen),
                 mv == NULL ? "no such version of this key" : mv->present ? "a value" : "a deletion");
  }
  c->added++;
}

static void batch_cb(void *arg, int type, const uint8_t *key, size_t klen, const uint8_t *val, size_t vlen,
                     uint64_t seq) {
  disk_add((addctx_t *)arg, type, key, klen, val, vlen, seq);
}

/* decode every *.ldb and *.log of `dir` (top level only) */
static void disk_scan(rm_t *H, const char *dir, disk_t *d) {
  char **names;
  int n = dir_list(dir, &names), i;
  memset(d, 0, sizeof(*d));
  for (i = 0; i < n; i++) {
    uint64_t num;
    int pc = iom_classify(names[i], &num);
    char path[800];
    uint8_t *data;
    size_t len;
    dfile_t *f;
    addctx_t c;
    if (pc == PC_MANIFEST && num > d->max_manifest) d->max_manifest = num;
    if (pc != PC_TABLE && pc != PC_LOG) continue;
    if (num > d->max_data_number) d->max_data_number = num;
    snprintf(path, sizeof(path), "%s/%s", dir, names[i]);
    data = read_file(path, &len);
    if (d->nf == d->capf) { d->capf = d->capf ? d->capf * 2 : 32; d->f = realloc(d->f, d->capf * sizeof(dfile_t)); }
    f = &d->f[d->nf++];
    memset(f, 0, sizeof(*f));
    f->num = num; f->is_log = pc == PC_LOG; f->size = len;
    c.H = H; c.d = d; c.file = num; c.is_log = f->is_log; c.added = 0;
    if (data == NULL) {
      snprintf(f->err, sizeof(f->err), "unreadable");
    } else if (pc == PC_TABLE) {
      rc_table_t t;
      if (rc_table_decode(data, len, &t) != 0) {
        snprintf(f->err, sizeof(f->err), "%.118s", t.err);
      } else {
        size_t k;
        f->ok = 1;
        for (k = 0; k < t.nentries; k++) {
          const rc_entry_t *en = &t.entries[k];
          uint64_t tr;
          if (en->klen < 8) {
            d->foreign++;
            disk_problem(d, "table #%llu: internal key shorter than 8 bytes", (unsigned long long)num);
            continue;
          }
          tr = rc_get_fixed64(en->key + en->klen - 8);
          disk_add(&c, (int)(tr & 0xff), en->key, en->klen - 8, en->val, en->vlen, tr >> 8);
        }
      }
      rc_table_free(&t);
    } else {
      rc_logresult_t lr;
      size_t k;
      rc_log_read(data, len, &lr);
      f->ok = 1;
      d->wal_drops += lr.ndrops;
      if (lr.ndrops > 0)
        disk_problem(d, "log #%llu: the reference reader reports %zu dropped region(s)", (unsigned long long)num,
                     lr.ndrops);
      for (k = 0; k < lr.nrecs; k++) {
        uint64_t seq;
        uint32_t cnt;
        d->wal_records++;
        if (rc_batch_iterate(lr.recs[k].data, lr.recs[k].len, &seq, &cnt, batch_cb, &c) != 0) {
          d->foreign++;
          disk_problem(d, "log #%llu: record %zu is not a well-formed batch", (unsigned long long)num, k);
        } else {
          d->wal_updates += cnt;
        }
      }
      rc_logresult_free(&lr);
    }
    f->nentries = c.added;
    free(data);
  }
  dir_free(names, n);
}

/* newest-by-sequence per row + structure statistics */
static void expect_build(rm_t *H, const disk_t *d, exp_t *E) {
  size_t i, nrows = H->m.nrows;
  uint64_t *fmax = calloc(nrows, sizeof(uint64_t));   /* highest-numbered table holding the row */
  int *inlog = calloc(nrows, sizeof(int));
  memset(E, 0, nrows * sizeof(exp_t));
  for (i = 0; i < d->n; i++) {
    const dent_t *e = &d->e[i];
    exp_t *x = &E[e->row];
    if (!x->have || e->seq > x->seq) {
      x->have = 1; x->present = e->type == 1; x->seq = e->seq; x->file = e->file; x->is_log = e->is_log;
    }
    if (e->is_log) inlog[e->row] = 1;
    else if (e->file > fmax[e->row]) fmax[e->row] = e->file;
  }
  /* per row: distinct tables, prediction of a file-number-ordered lookup */
  for (i = 0; i < d->n; i++) {
    const dent_t *e = &d->e[i];
    exp_t *x = &E[e->row];
    if (e->is_log) continue;
    if (e->file == fmax[e->row] && (x->pred_seq == 0 || e->seq > x->pred_seq)) { x->pred_seq = e->seq; x->pred_type = e->type; }
  }
  for (i = 0; i < nrows; i++) {
    exp_t *x = &E[i];
    size_t k, j;
    uint64_t seen[16];
    int ns = 0;
    if (!x->have) continue;
    for (k = 0; k < d->n; k++) {
      if (d->e[k].row != (int)i || d->e[k].is_log) continue;
      for (j = 0; j < (size_t)ns; j++) if (seen[j] == d->e[k].file) break;
      if (j == (size_t)ns && ns < 16) seen[ns++] = d->e[k].file;
    }
    x->ntables = ns;
    x->misordered = !inlog[i] && !x->is_log && fmax[i] != 0 && x->file != fmax[i];
    x->level = (!x->is_log && x->file < H->pre_level_cap) ? H->pre_level[x->file] : -1;
  }
  free(fmax);
  free(inlog);
}

/* ------------------------------------------------------------------ */
/* history: mutations and structural operations */

static void ok_or_die(rm_t *H, int rc, const char *what) {
  if (rc != LDB_OK)
    vh_fatal("case %d step %d: %s returned %d (%s) while building the history", H->caseidx, H->step, what, rc,
             ldb_strerror(rc));
}

static uint32_t pick_vlen(rm_t *H) {
  uint32_t n = value_len_random(&H->r, H->allow_big);
  if (n < 8 && !vr_chance(&H->r, 60)) n = 8 + vr_uniform(&H->r, 120);   /* most values carry their id */
  return n;
}

static int pick_row(rm_t *H) { return (int)vr_uniform(&H->r, (uint32_t)H->m.nrows); }

static void do_put(rm_t *H, int row, uint32_t vlen) {
  ldb_slice_t k = row_key(H, row), v;
  uint64_t vid = (H->next_vid += 2) | (vr_next(&H->r) & 1);
  vh_fill_value(H->vbuf, vlen, vid);
  v = ldb_slice(H->vbuf, vlen);
  ok_or_die(H, ldb_put(H->h.db, &k, &v, NULL), "put");
  m_put(&H->m, row, vid, vlen);
  vh_count("puts", 1);
}

static void do_del(rm_t *H, int row) {
  ldb_slice_t k = row_key(H, row);
  ok_or_die(H, ldb_del(H->h.db, &k, NULL), "del");
  m_del(&H->m, row);
  vh_count("dels", 1);
}

static void do_batch(rm_t *H) {
  ldb_batch_t *b = ldb_batch_create();
  int n = 1 + (int)vr_skewed(&H->r, 6), i;
  int hot = pick_row(H);
  struct { int row, del; uint64_t vid; uint32_t vlen; } ups[80];
  if (n > 80) n = 80;
  for (i = 0; i < n; i++) {
    int row = vr_chance(&H->r, 150) ? hot : pick_row(H);
    ldb_slice_t k = row_key(H, row);
    ups[i].row = row;
    if (vr_chance(&H->r, 200)) {
      ups[i].del = 1;
      ldb_batch_del(b, &k);
    } else {
      uint32_t vlen = pick_vlen(H);
      ldb_slice_t v;
      if (vlen > 20000) vlen = 20000;
      ups[i].del = 0;
      ups[i].vid = (H->next_vid += 2) | (vr_next(&H->r) & 1);
      ups[i].vlen = vlen;
      vh_fill_value(H->vbuf, vlen, ups[i].vid);
      v = ldb_slice(H->vbuf, vlen);
      ldb_batch_put(b, &k, &v);
    }
  }
  ok_or_die(H, ldb_write(H->h.db, b, NULL), "write(batch)");
  for (i = 0; i < n; i++) {
    if (ups[i].del) m_del(&H->m, ups[i].row);
    else m_put(&H->m, ups[i].row, ups[i].vid, ups[i].vlen);
  }
  ldb_batch_destroy(b);
  vh_count("batches", 1);
}

static void do_flush(rm_t *H) {
  ok_or_die(H, ldb_test_compact_memtable(H->h.db), "flush");
  H->flushes++;
}

static void do_crange(rm_t *H, int level, const ldb_slice_t *a, const ldb_slice_t *b) {
  ldb_test_compact_range(H->h.db, level, a, b);
  H->compactions++;
}

static void snap_take(rm_t *H) {
  if (H->nsnaps >= MAX_SNAPS) return;
  H->snaps[H->nsnaps].s = ldb_snapshot(H->h.db);
  H->snaps[H->nsnaps].ver = H->m.version;
  H->nsnaps++;
  H->snaps_taken++;
}

static void snap_release_at(rm_t *H, int i) {
  ldb_release(H->h.db, H->snaps[i].s);
  memmove(&H->snaps[i], &H->snaps[i + 1], (size_t)(H->nsnaps - i - 1) * sizeof(snap_t));
  H->nsnaps--;
}

static void release_everything(rm_t *H) { while (H->nsnaps > 0) snap_release_at(H, H->nsnaps - 1); }

static void structural(rm_t *H, int kind) {
  int a = pick_row(H), b = pick_row(H);
  ldb_slice_t ka, kb;
  if (a > b) { int t = a; a = b; b = t; }
  ka = row_key(H, a); kb = row_key(H, b);
  switch (kind) {
    case 0: do_flush(H); break;
    case 1: {
      /* deeper levels are preferred: rewriting OLD data gives it NEW file numbers */
      int level = vr_chance(&H->r, 600) ? 1 + (int)vr_uniform(&H->r, 4) : (int)vr_uniform(&H->r, 6);
      do_crange(H, level, vr_chance(&H->r, 400) ? NULL : &ka, vr_chance(&H->r, 400) ? NULL : &kb);
      break;
    }
    case 2: ldb_compact(H->h.db, &ka, &kb); H->compactions++; break;
    default: ldb_compact(H->h.db, NULL, NULL); H->compactions++; break;
  }
}

static void do_reopen(rm_t *H) {
  cfg_t c;
  int rc;
  release_everything(H);
  if (vr_chance(&H->r, 400)) do_flush(H);   /* otherwise the next open replays (or reuses) the log */
  ldb_verif_wait_idle(H->h.db);
  dbh_close(&H->h);
  c = H->h.cfg;
  cfg_mutate_reopen(&c, &H->r);
  dbh_set_cfg(&H->h, &c);
  rc = dbh_open(&H->h, 0);
  if (rc != LDB_OK) vh_fatal("case %d: reopen of a cleanly closed database failed: %d", H->caseidx, rc);
  H->reopens++;
}

/* ---- scripted templates ------------------------------------------ */

static void neighbours(rm_t *H, int n) {
  while (n-- > 0) do_put(H, pick_row(H), 8 + vr_uniform(&H->r, 1500));
}

static void push_deep(rm_t *H, int K) {
  ldb_slice_t k = row_key(H, K);
  do_crange(H, 0, &k, &k);
  do_crange(H, 1, &k, &k);
}

static void rewrite_deep(rm_t *H, int K, int n) {
  ldb_slice_t k = row_key(H, K);
  int i;
  for (i = 0; i < n; i++) do_crange(H, 2 + i, &k, &k);
}

/* F4 recipe (DESIGN section 4): old version deep, newer version shallow, then the deep
   level is compacted manually so that the OLD data is rewritten under a HIGHER number. */
static void tmpl_f4(rm_t *H) {
  int K = pick_row(H);
  do_put(H, K, 8 + vr_uniform(&H->r, 2000));          /* old */
  neighbours(H, (int)vr_uniform(&H->r, 4));
  do_flush(H);
  push_deep(H, K);
  do_put(H, K, 8 + vr_uniform(&H->r, 2000));          /* new */
  neighbours(H, (int)vr_uniform(&H->r, 4));
  do_flush(H);
  rewrite_deep(H, K, 1 + (int)vr_uniform(&H->r, 3));
  vh_count("template_f4", 1);
}

/* tombstone in a shallow table over a value in a deeper one */
static void tmpl_tomb(rm_t *H) {
  int K = pick_row(H);
  do_put(H, K, 8 + vr_uniform(&H->r, 2000));
  neighbours(H, 1 + (int)vr_uniform(&H->r, 4));
  do_flush(H);
  push_deep(H, K);
  do_del(H, K);
  neighbours(H, (int)vr_uniform(&H->r, 3));
  do_flush(H);
  if (vr_chance(&H->r, 500)) rewrite_deep(H, K, 1 + (int)vr_uniform(&H->r, 2));
  vh_count("template_tomb", 1);
}

/* several versions of one key pinned by snapshots across flush + compactions */
static void tmpl_snap(rm_t *H) {
  int K = pick_row(H);
  while (H->nsnaps > MAX_SNAPS - 2) snap_release_at(H, 0);
  do_put(H, K, 8 + vr_uniform(&H->r, 800));
  snap_take(H);
  do_put(H, K, 8 + vr_uniform(&H->r, 800));
  snap_take(H);
  if (vr_chance(&H->r, 300)) do_del(H, K); else do_put(H, K, 8 + vr_uniform(&H->r, 800));
  neighbours(H, (int)vr_uniform(&H->r, 3));
  do_flush(H);
  push_deep(H, K);
  do_put(H, K, 8 + vr_uniform(&H->r, 800));
  do_flush(H);
  if (vr_chance(&H->r, 500)) rewrite_deep(H, K, 1 + (int)vr_uniform(&H->r, 2));
  vh_count("template_snap", 1);
}

static void run_templates_at(rm_t *H, const int *pos, int now) {
  if ((H->tmpl_mask & T_F4) && !(H->tmpl_done & T_F4) && pos[0] <= now) { tmpl_f4(H); H->tmpl_done |= T_F4; }
  if ((H->tmpl_mask & T_TOMB) && !(H->tmpl_done & T_TOMB) && pos[1] <= now) { tmpl_tomb(H); H->tmpl_done |= T_TOMB; }
  if ((H->tmpl_mask & T_SNAP) && !(H->tmpl_done & T_SNAP) && pos[2] <= now) { tmpl_snap(H); H->tmpl_done |= T_SNAP; }
}

/* ------------------------------------------------------------------ */
/* reading the database: lookups and scans */

static void get_one(rm_t *H, int row, uint64_t prefer, res_t *g) {
  ldb_readopt_t ro = *ldb_readopt_default;
  ldb_slice_t k = row_key(H, row), v;
  memset(g, 0, sizeof(*g));
  ro.verify_checksums = (int)(vr_next(&H->r) & 1);
  g->rc = ldb_get(H->h.db, &k, &v, &ro);
  vh_count("gets", 1);
  if (g->rc == LDB_OK) {
    g->found = 1;
    g->len = v.size;
    g->rawvid = vh_value_vid(v.data, v.size);
    g->ver = identify(H, row, v.data, v.size, prefer);
    ldb_free(v.data);
  }
}

/* expectation of a row in the current phase: (present, model version) */
static void expect_row(const rm_t *H, int row, int *present, uint64_t *ver, int *touched) {
  const mrow_t *r = &H->m.rows[row];
  *touched = 0;
  if (H->E == NULL) {   /* before the repair: the model's latest state */
    *present = r->nv > 0 && r->v[r->nv - 1].present;
    *ver = r->nv > 0 ? r->v[r->nv - 1].ver : 0;
    return;
  }
  if (H->followup && r->nv > 0 && r->v[r->nv - 1].ver > H->base_version) {
    *touched = 1;
    *present = r->v[r->nv - 1].present;
    *ver = r->v[r->nv - 1].ver;
    return;
  }
  *present = H->E[row].have && H->E[row].present;
  *ver = H->E[row].have ? H->E[row].seq : 0;
}

/* full scan; results per row; returns 0 and fills `problem` on structural trouble */
static int scan_all(rm_t *H, int backward, res_t *out, char *problem, size_t pn) {
  ldb_readopt_t ro = *ldb_iteropt_default;
  ldb_iter_t *it;
  int last = backward ? (int)H->m.nrows : -1, ok = 1, st;
  size_t n = 0;
  memset(out, 0, H->m.nrows * sizeof(res_t));
  problem[0] = 0;
  ro.verify_checksums = (int)(vr_next(&H->r) & 1);
  it = ldb_iterator(H->h.db, &ro);
  if (backward) ldb_iter_last(it); else ldb_iter_first(it);
  while (ldb_iter_valid(it)) {
    ldb_slice_t k = ldb_iter_key(it), v = ldb_iter_value(it);
    int row = m_find(&H->m, k.data, k.size), present, touched;
    uint64_t ver;
    if (row < 0) {
      if (ok) snprintf(problem, pn, "%s scan yields key '%s' which was never written", backward ? "backward" : "forward",
                       vh_esc(k.data, k.size));
      ok = 0;
    } else {
      if (backward ? row >= last : row <= last) {
        if (ok) snprintf(problem, pn, "%s scan out of order or duplicate: key '%s' (row %d) after row %d",
                         backward ? "backward" : "forward", vh_esc(k.data, k.size), row, last);
        ok = 0;
      }
      last = row;
      expect_row(H, row, &present, &ver, &touched);
      out[row].found = 1;
      out[row].len = v.size;
      out[row].rawvid = vh_value_vid(v.data, v.size);
      out[row].ver = identify(H, row, v.data, v.size, ver);
    }
    n++;
    if (n > H->m.nrows + 8) {
      if (ok) snprintf(problem, pn, "%s scan does not terminate (%zu entries for %zu keys)", backward ? "backward" : "forward",
                       n, H->m.nrows);
      ok = 0;
      break;
    }
    if (backward) ldb_iter_prev(it); else ldb_iter_next(it);
  }
  st = ldb_iter_status(it);
  if (st != LDB_OK) {
    if (ok) snprintf(problem, pn, "%s scan ends with iterator status %d (%s)", backward ? "backward" : "forward", st,
                     ldb_strerror(st));
    ok = 0;
  }
  ldb_iter_destroy(it);
  vh_count("scans", 1);
  vh_count("scan_entries", n);
  return ok;
}

static int res_matches(const res_t *g, int present, uint64_t ver) {
  if (g->rc != LDB_OK && g->rc != LDB_NOTFOUND) return 0;
  if (!present) return !g->found;
  return g->found && g->ver == ver;
}

static const char *res_str(const rm_t *H, int row, const res_t *g) {
  static char buf[4][160];
  static int pos = 0;
  char *b = buf[pos++ & 3];
  if (g->rc != LDB_OK && g->rc != LDB_NOTFOUND) snprintf(b, 160, "status %d", g->rc);
  else if (!g->found) snprintf(b, 160, "absent");
  else if (g->ver == 0) snprintf(b, 160, "value len=%zu vid=%llx (never written to this key)", g->len, (unsigned long long)g->rawvid);
  else {
    const mver_t *e = ver_find(H, row, g->ver);
    snprintf(b, 160, "value vid=%llx len=%zu seq=%llu", (unsigned long long)(e ? e->vid : 0), g->len, (unsigned long long)g->ver);
  }
  return b;
}

/* ---- diagnosis ----------------------------------------------------- */

static void diag_prepare(rm_t *H) {
  if (H->diag_valid) return;
  disk_scan(H, H->h.dir, &H->diag);
  H->diag_layout_ok = dbh_layout(H->h.db, &H->diag_layout);
  H->diag_valid = 1;
}

static void diag_drop(rm_t *H) {
  if (!H->diag_valid) return;
  disk_free(&H->diag);
  if (H->diag_layout_ok) layout_free(&H->diag_layout);
  H->diag_valid = 0;
  H->diag_layout_ok = 0;
}

static int live_level(const rm_t *H, uint64_t num) {
  size_t i;
  if (!H->diag_layout_ok) return -1;
  for (i = 0; i < H->diag_layout.n; i++) if (H->diag_layout.files[i].number == num) return H->diag_layout.files[i].level;
  return -1;
}

/* "#12(L0): seq 40 val vid.., seq 35 del; #9(L0): ..." for the live tables holding the row */
static void describe_key_tables(rm_t *H, int row, char *buf, size_t n) {
  size_t i, o = 0;
  uint64_t lastfile = 0;
  int first = 1;
  buf[0] = 0;
  for (;;) {
    /* next file in descending number order */
    uint64_t best = 0;
    for (i = 0; i < H->diag.n; i++) {
      const dent_t *e = &H->diag.e[i];
      if (e->row != row || e->is_log) continue;
      if ((first || e->file < lastfile) && e->file > best) best = e->file;
    }
    if (best == 0 || o + 120 > n) break;
    o += (size_t)snprintf(buf + o, n - o, "%s#%llu(L%d):", first ? "" : "; ", (unsigned long long)best, live_level(H, best));
    for (i = 0; i < H->diag.n && o + 80 < n; i++) {
      const dent_t *e = &H->diag.e[i];
      const mver_t *mv;
      if (e->row != row || e->is_log || e->file != best) continue;
      mv = e->ver ? ver_find(H, row, e->ver) : NULL;
      if (e->type == 1) o += (size_t)snprintf(buf + o, n - o, " seq %llu value vid=%llx", (unsigned long long)e->seq, (unsigned long long)(mv ? mv->vid : 0));
      else o += (size_t)snprintf(buf + o, n - o, " seq %llu deletion", (unsigned long long)e->seq);
    }
    lastfile = best;
    first = 0;
  }
}

/* Is the wrong lookup exactly the known shape?  The newest version E of the key and an
   older version X both sit in LIVE LEVEL-0 tables, X's table has the HIGHER file number and is
   the highest-numbered level-0 table holding the key, the lookup returned X's newest entry. */
static int f4_shape(rm_t *H, int row, uint64_t exp_seq, const res_t *g, uint64_t *stale_table, uint64_t *stale_seq,
                    uint64_t *new_table) {
  size_t i;
  uint64_t tmax = 0, xseq = 0, xver = 0, newest = 0, newest_file = 0;
  int xtype = -1;
  for (i = 0; i < H->diag.n; i++) {
    const dent_t *e = &H->diag.e[i];
    int lvl;
    if (e->row != row || e->is_log) continue;
    lvl = live_level(H, e->file);
    if (lvl < 0) continue;                    /* not live: not consulted */
    if (e->seq > newest) { newest = e->seq; newest_file = e->file; }
    if (lvl == 0 && e->file > tmax) tmax = e->file;
  }
  if (tmax == 0 || newest != exp_seq || live_level(H, newest_file) != 0 || tmax <= newest_file) return 0;
  for (i = 0; i < H->diag.n; i++) {
    const dent_t *e = &H->diag.e[i];
    if (e->row != row || e->is_log || e->file != tmax) continue;
    if (xtype < 0 || e->seq > xseq) { xseq = e->seq; xtype = e->type; xver = e->ver; }
  }
  if (xtype < 0 || xseq >= exp_seq) return 0;
  if (xtype == 0 ? g->found : (!g->found || g->ver != xver || xver == 0)) return 0;
  *stale_table = tmax; *stale_seq = xseq; *new_table = newest_file;
  return 1;
}

static void diagnose_get(rm_t *H, int row, const char *phase, int present, uint64_t ver, int touched, const res_t *g,
                         const res_t *f, const res_t *b) {
  char tables[900];
  const mver_t *ev = ver ? ver_find(H, row, ver) : NULL;
  const char *key;
  int iter_ok = res_matches(f, present, ver) && res_matches(b, present, ver);
  uint64_t st = 0, ss = 0, nt = 0, exp_table = 0, got_table = 0;
  size_t i;
  diag_prepare(H);
  describe_key_tables(H, row, tables, sizeof(tables));
  for (i = 0; i < H->diag.n; i++) {
    const dent_t *e = &H->diag.e[i];
    if (e->row != row || e->is_log || live_level(H, e->file) < 0) continue;
    if (e->seq == ver && !touched) exp_table = e->file;
    if (g->found && g->ver != 0 && e->ver == g->ver && e->type == 1 && e->file > got_table) got_table = e->file;
  }
  if (g->rc != LDB_OK && g->rc != LDB_NOTFOUND) key = "get-status";
  else if (touched) key = strcmp(phase, "after-reopen") == 0 ? "followup-lost-after-reopen" : "new-write-shadowed";
  else if (iter_ok && f4_shape(H, row, ver, g, &st, &ss, &nt)) key = "get-stale-level0-file-number-order";
  else if (g->found && g->ver == 0) key = "get-value-never-written";
  else if (present && !g->found) key = "get-missing";
  else if (!present && g->found) key = "get-phantom";
  else key = "get-stale";

  if (strcmp(key, "get-stale-level0-file-number-order") == 0) {
    H->f4_keys++;
    vh_count("f4_observed_keys", 1);
    viol(H, key, "%s: key '%s': expected %s vid=%llx seq=%llu in table #%llu (L0 now, L%d before repair); ldb_get returned %s "
         "= the entry seq=%llu of table #%llu (L0), an OLDER version in a table with a HIGHER number; iterators return the "
         "expected version (fwd %s, bwd %s); live tables holding the key: %s; layout-now=%s",
         phase, vh_esc(H->m.rows[row].key, H->m.rows[row].klen), present ? "value" : "deletion",
         (unsigned long long)(ev ? ev->vid : 0), (unsigned long long)ver, (unsigned long long)nt,
         nt < H->pre_level_cap ? H->pre_level[nt] : -1, res_str(H, row, g), (unsigned long long)ss, (unsigned long long)st,
         res_str(H, row, f), res_str(H, row, b), tables, H->diag_layout_ok ? layout_sig(&H->diag_layout) : "?");
    return;
  }
  if (touched) {
    int was_present = H->E[row].have && H->E[row].present;
    int is_repaired = was_present ? (g->found && g->ver == H->E[row].seq) : !g->found;
    viol(H, key, "%s: key '%s' was %s by the follow-up after the repair (value vid=%llx len=%u, model seq %llu) but ldb_get returns "
         "%s (table #%llu, L%d)%s; the repair had brought back %s seq=%llu; iterator fwd=%s bwd=%s; live tables holding the key: %s; "
         "layout-now=%s", phase, vh_esc(H->m.rows[row].key, H->m.rows[row].klen), present ? "overwritten" : "deleted",
         (unsigned long long)(ev ? ev->vid : 0), ev ? ev->vlen : 0, (unsigned long long)ver, res_str(H, row, g),
         (unsigned long long)got_table, got_table ? live_level(H, got_table) : -1,
         is_repaired ? " = what the repair had brought back: the newer write is shadowed by older data" : "",
         H->E[row].have ? (H->E[row].present ? "a value" : "a deletion") : "nothing", (unsigned long long)H->E[row].seq,
         res_str(H, row, f), res_str(H, row, b), tables, H->diag_layout_ok ? layout_sig(&H->diag_layout) : "?");
    return;
  }
  viol(H, key, "%s: key '%s': expected %s vid=%llx len=%u seq=%llu (table #%llu, L%d now, L%d before repair, source %s #%llu); "
       "ldb_get returned %s (table #%llu, L%d); iterator fwd=%s bwd=%s (%s); live tables holding the key: %s; layout-now=%s",
       phase, vh_esc(H->m.rows[row].key, H->m.rows[row].klen),
       present ? "value" : "absent", (unsigned long long)(ev ? ev->vid : 0), ev ? ev->vlen : 0, (unsigned long long)ver,
       (unsigned long long)exp_table, exp_table ? live_level(H, exp_table) : -1, H->E[row].level,
       H->E[row].is_log ? "log" : "table", (unsigned long long)H->E[row].file,
       res_str(H, row, g), (unsigned long long)got_table, got_table ? live_level(H, got_table) : -1, res_str(H, row, f),
       res_str(H, row, b), iter_ok ? "iterators right" : "iterators wrong too", tables,
       H->diag_layout_ok ? layout_sig(&H->diag_layout) : "?");
}

/* oracles (i) (ii) (iii) for the current phase */
static int check_phase(rm_t *H, const char *phase, int gate) {
  size_t nrows = H->m.nrows, i;
  char pf[400], pb[400];
  int okf, okb, iter_reports = 0, reached;
  diag_drop(H);
  /* Nothing may be installed while lookups, scans and the diagnosis look at the database: a
     compaction that starts now (e.g. triggered by the seeks of these very lookups) parks at its
     first table creation until the phase is over.  Trivial moves can still happen; they only
     move a table that overlaps no other level-0 table, which never affects a lookup. */
  if (gate < 0) gate = iom_gate_arm(IOP_CREATE, PC_TABLE, 1);
  for (i = 0; i < nrows; i++) {
    int present, touched;
    uint64_t ver;
    expect_row(H, (int)i, &present, &ver, &touched);
    get_one(H, (int)i, ver, &H->gres[i]);
  }
  okf = scan_all(H, 0, H->fres, pf, sizeof(pf));
  okb = scan_all(H, 1, H->bres, pb, sizeof(pb));
  if (!okf) viol(H, "iter-mismatch", "%s: %s", phase, pf);
  if (!okb) viol(H, "iter-mismatch", "%s: %s", phase, pb);
  for (i = 0; i < nrows; i++) {
    int present, touched, gok, fok, bok;
    uint64_t ver;
    expect_row(H, (int)i, &present, &ver, &touched);
    gok = res_matches(&H->gres[i], present, ver);
    fok = res_matches(&H->fres[i], present, ver);
    bok = res_matches(&H->bres[i], present, ver);
    vh_count("keys_checked", 1);
    if ((!fok || !bok) && iter_reports++ < 2) {
      const mver_t *ev = ver ? ver_find(H, (int)i, ver) : NULL;
      char tables[900];
      diag_prepare(H);
      describe_key_tables(H, (int)i, tables, sizeof(tables));
      viol(H, touched ? (strcmp(phase, "after-reopen") == 0 ? "followup-lost-after-reopen" : "new-write-shadowed") : "iter-mismatch",
           "%s: key '%s'%s: expected %s vid=%llx seq=%llu; forward scan gives %s, backward scan gives %s, ldb_get gives %s; "
           "live tables holding the key: %s; layout-now=%s",
           phase, vh_esc(H->m.rows[i].key, H->m.rows[i].klen), touched ? " (written by the follow-up)" : "",
           present ? "value" : "absent", (unsigned long long)(ev ? ev->vid : 0), (unsigned long long)ver,
           res_str(H, (int)i, &H->fres[i]), res_str(H, (int)i, &H->bres[i]), res_str(H, (int)i, &H->gres[i]), tables,
           H->diag_layout_ok ? layout_sig(&H->diag_layout) : "?");
    }
    if (!gok) diagnose_get(H, (int)i, phase, present, ver, touched, &H->gres[i], &H->fres[i], &H->bres[i]);
    if (gok && fok && bok) vh_count("get_iter_agree_with_expectation", 1);
  }
  vh_count("phase_checks", 1);
  diag_drop(H);
  reached = gate >= 0 && iom_gate_reached(gate);
  iom_gate_clear();
  ldb_verif_wait_idle(H->h.db);
  return reached;
}

/* ------------------------------------------------------------------ */
/* oracles (v) and (vi) */

static int name_in(char **names, int n, const char *s) {
  int i;
  for (i = 0; i < n; i++) if (strcmp(names[i], s) == 0) return 1;
  return 0;
}

static void check_file_numbers(rm_t *H, const char *phase) {
  char **names;
  int n = dir_list(H->h.dir, &names), i;
  uint64_t ctr[8], maxnow = 0;
  for (i = 0; i < n; i++) {
    uint64_t num;
    int pc = iom_classify(names[i], &num);
    if (pc != PC_TABLE && pc != PC_LOG && pc != PC_MANIFEST && pc != PC_DBTMP) continue;
    if (num > maxnow) maxnow = num;
    if (name_in(H->post_names, H->npost, names[i])) continue;
    vh_count("new_files_checked", 1);
    if (num <= H->max_before)
      viol(H, "file-number-not-above-existing", "%s: '%s' was created after the repair although number %llu was already "
           "taken on disk before the open (highest table/log/MANIFEST number then: %llu)", phase, names[i],
           (unsigned long long)H->max_before, (unsigned long long)H->max_before);
    else if (num <= H->old_manifest)
      vh_count("new_file_number_not_above_archived_manifest", 1);
  }
  if (H->h.db != NULL) {
    ldb_verif_counters(H->h.db, ctr);
    if (ctr[2] <= maxnow || ctr[2] <= H->max_before)
      viol(H, "file-number-not-above-existing", "%s: next file number %llu does not exceed the numbers on disk (now %llu, "
           "before the open %llu)", phase, (unsigned long long)ctr[2], (unsigned long long)maxnow,
           (unsigned long long)H->max_before);
  }
  dir_free(names, n);
}

/* ------------------------------------------------------------------ */
/* the repair part of a case */

static void gate_off(void) { iom_gate_clear(); }

static int apply_metadata_loss(rm_t *H) {
  char **names, cur[800], man[800] = "";
  int n = dir_list(H->h.dir, &names), i;
  uint64_t mnum = 0;
  snprintf(cur, sizeof(cur), "%s/CURRENT", H->h.dir);
  for (i = 0; i < n; i++) {
    uint64_t num;
    if (iom_classify(names[i], &num) == PC_MANIFEST) { snprintf(man, sizeof(man), "%s/%s", H->h.dir, names[i]); mnum = num; }
  }
  dir_free(names, n);
  if (man[0] == 0) vh_fatal("case %d: no MANIFEST after a clean close", H->caseidx);
  H->old_manifest = mnum;
  switch (H->variant) {
    case V_DEL_CURRENT: unlink(cur); break;
    case V_DEL_MANIFEST: unlink(man); break;
    case V_DEL_BOTH: unlink(cur); unlink(man); break;
    case V_TRUNC_MANIFEST: {
      struct stat st;
      if (stat(man, &st) == 0 && truncate(man, (off_t)vr_uniform(&H->r, (uint32_t)st.st_size)) != 0)
        vh_fatal("truncate %s: %s", man, strerror(errno));
      break;
    }
    case V_FLIP_MANIFEST: {
      size_t len, k, nflip = 1 + vr_uniform(&H->r, 8);
      uint8_t *p = read_file(man, &len);
      if (p != NULL && len > 0) {
        for (k = 0; k < nflip; k++) p[vr_uniform(&H->r, (uint32_t)len)] ^= (uint8_t)(1 + vr_uniform(&H->r, 255));
        write_file(man, p, len);
      }
      free(p);
      break;
    }
    case V_CURRENT_MISSING: {
      char txt[64];
      snprintf(txt, sizeof(txt), "MANIFEST-%06llu\n", (unsigned long long)(mnum + 1 + vr_uniform(&H->r, 1000)));
      write_file(cur, txt, strlen(txt));
      break;
    }
    default: {
      uint8_t g[48];
      size_t len = vr_uniform(&H->r, 48), k;
      for (k = 0; k < len; k++) g[k] = (uint8_t)vr_next(&H->r);
      write_file(cur, g, len);
      break;
    }
  }
  return 0;
}

/* optional loss / destruction of one data file; returns the kind actually applied */
static int apply_extra_loss(rm_t *H, int want) {
  char **names, path[800];
  int n = dir_list(H->h.dir, &names), i, ntab = 0, pick, applied = X_NONE;
  for (i = 0; i < n; i++) { uint64_t num; if (iom_classify(names[i], &num) == PC_TABLE) ntab++; }
  if (want == X_DEL_WAL) {
    for (i = 0; i < n; i++) {
      uint64_t num;
      if (iom_classify(names[i], &num) == PC_LOG) { snprintf(path, sizeof(path), "%s/%s", H->h.dir, names[i]); unlink(path); applied = X_DEL_WAL; }
    }
  } else if ((want == X_DEL_TABLE || want == X_CORRUPT_TABLE) && ntab > 0) {
    pick = (int)vr_uniform(&H->r, (uint32_t)ntab);
    for (i = 0; i < n; i++) {
      uint64_t num;
      if (iom_classify(names[i], &num) != PC_TABLE || pick-- != 0) continue;
      snprintf(path, sizeof(path), "%s/%s", H->h.dir, names[i]);
      if (want == X_DEL_TABLE) {
        unlink(path);
      } else {
        struct stat st;
        H->corrupt_table = num;
        if (stat(path, &st) != 0) vh_fatal("stat %s", path);
        if (vr_chance(&H->r, 500)) {
          /* cut anywhere: the footer is gone */
          if (truncate(path, (off_t)vr_uniform(&H->r, (uint32_t)st.st_size)) != 0) vh_fatal("truncate %s", path);
        } else {
          /* destroy the magic number */
          size_t len;
          uint8_t *p = read_file(path, &len);
          if (p == NULL || len < 8) vh_fatal("read %s", path);
          p[len - 1 - vr_uniform(&H->r, 8)] ^= (uint8_t)(1 + vr_uniform(&H->r, 255));
          write_file(path, p, len);
          free(p);
        }
      }
      applied = want;
      break;
    }
  }
  dir_free(names, n);
  return applied;
}

static void followup_writes(rm_t *H) {
  int n = 30 + (int)vr_uniform(&H->r, 31), i;
  size_t nrows = H->m.nrows;
  H->followup = 1;
  for (i = 0; i < n; i++) {
    int row = pick_row(H), tries, present, touched, c = (int)vr_uniform(&H->r, 100);
    uint64_t ver;
    res_t g;
    if (c < 60) {
      /* overwrite / delete a key that the repair brought back */
      for (tries = 0; tries < 40 && !(H->E[row].have && H->E[row].present); tries++) row = pick_row(H);
    } else if (c < 80) {
      /* a key that is absent after the repair */
      for (tries = 0; tries < 40 && (H->E[row].have && H->E[row].present); tries++) row = pick_row(H);
    }
    if (vr_chance(&H->r, 250)) do_del(H, row); else do_put(H, row, 8 + vr_uniform(&H->r, 3000));
    expect_row(H, row, &present, &ver, &touched);
    get_one(H, row, ver, &g);
    vh_count("followup_writes", 1);
    if (!res_matches(&g, present, ver)) {
      res_t none;
      memset(&none, 0, sizeof(none));
      viol(H, "new-write-shadowed", "follow-up write %d (%s of key '%s', model seq %llu) is not visible to the lookup issued "
           "right after it: ldb_get returned %s; before the write the key was %s (seq %llu)", i, present ? "put" : "delete",
           vh_esc(H->m.rows[row].key, H->m.rows[row].klen), (unsigned long long)ver, res_str(H, row, &g),
           H->E[row].have ? (H->E[row].present ? "a repaired value" : "a repaired deletion") : "absent",
           (unsigned long long)H->E[row].seq);
    }
  }
  (void)nrows;
  vh_count("followups", 1);
}

static double dbg_t0;
#define DBG_T(what) do { if (getenv("RM_DEBUG")) fprintf(stderr, "[rm] case %d %-22s +%.3fs\n", H->caseidx, what, vh_now() - dbg_t0); dbg_t0 = vh_now(); } while (0)

static void repair_part(rm_t *H) {
  disk_t pre, post;
  exp_t *P;
  size_t nrows = H->m.nrows, i;
  int rc, any_multi = 0, any_mis = 0, mis_keys = 0, lost_tables = 0, wal_nonempty;
  uint64_t ctr[8], max_seq_disk = 0;
  size_t ntab = 0, nlog = 0;
  cfg_t c;
  int gate, parked;

  /* --- 3. metadata loss (+ optional loss of a data file) */
  DBG_T("history+close");
  apply_metadata_loss(H);
  if (H->extra != X_NONE) H->extra = apply_extra_loss(H, H->extra);
  H->lost_data = H->extra != X_NONE;
  { char nm[64]; snprintf(nm, sizeof(nm), "variant_%s", variant_name[H->variant]); vh_count(nm, 1); }
  { char nm[64]; snprintf(nm, sizeof(nm), "extra_%s", extra_name[H->extra]); vh_count(nm, 1); }

  /* --- 4. expectation from the surviving files, with the independent decoders */
  disk_scan(H, H->h.dir, &pre);
  H->npre_tables = 0;
  H->pre_tables = calloc(pre.nf + 1, sizeof(uint64_t));
  H->pre_table_ok = calloc(pre.nf + 1, sizeof(int));
  for (i = 0; i < pre.nf; i++) {
    const dfile_t *f = &pre.f[i];
    if (f->is_log) { nlog++; continue; }
    ntab++;
    H->pre_tables[H->npre_tables] = f->num;
    H->pre_table_ok[H->npre_tables++] = f->ok;
    if (!f->ok && !(H->extra == X_CORRUPT_TABLE && f->num == H->corrupt_table))
      vh_fatal("case %d: reference decoder rejects table #%llu written by a crash-free history: %s (refcodec or table "
               "writer problem, see C16)", H->caseidx, (unsigned long long)f->num, f->err);
    if (f->ok && (f->num >= H->pre_level_cap || H->pre_level[f->num] < 0)) {
      H->nonlive++;
      if (getenv("RM_DEBUG")) fprintf(stderr, "[rm] case %d: table #%llu (%zu entries) on disk but not live at close\n",
                                      H->caseidx, (unsigned long long)f->num, f->nentries);
    }
  }
  if (pre.foreign || pre.unmatched || pre.wal_drops)
    vh_fatal("case %d: files of a cleanly closed database contradict the model of acknowledged writes: %s", H->caseidx,
             pre.problem);
  H->E = calloc(nrows, sizeof(exp_t));
  expect_build(H, &pre, H->E);
  if (!H->lost_data && H->nonlive == 0) {
    /* self-check of harness + refcodec: newest-by-sequence == model's latest */
    for (i = 0; i < nrows; i++) {
      const mver_t *mv = m_get(&H->m, (int)i, H->base_version);
      const exp_t *x = &H->E[i];
      int ok;
      if (mv == NULL) ok = !x->have;
      else if (!mv->present) ok = !x->have || (!x->present && x->seq == mv->ver);
      else ok = x->have && x->present && x->seq == mv->ver;
      if (!ok)
        vh_fatal("case %d: expectation derived from the files disagrees with the model for key '%s' although no data "
                 "file was removed: files say have=%d present=%d seq=%llu (file #%llu), model says %s seq=%llu",
                 H->caseidx, vh_esc(H->m.rows[i].key, H->m.rows[i].klen), x->have, x->present,
                 (unsigned long long)x->seq, (unsigned long long)x->file,
                 mv == NULL ? "never written" : mv->present ? "value" : "deleted", (unsigned long long)(mv ? mv->ver : 0));
    }
    vh_count("expectation_equals_model", 1);
  } else if (H->nonlive) {
    vh_count("cases_with_nonlive_tables_at_close", 1);
  }
  for (i = 0; i < nrows; i++) {
    if (H->E[i].ntables >= 2) any_multi = 1;
    if (H->E[i].misordered) { any_mis = 1; mis_keys++; }
  }
  wal_nonempty = pre.wal_updates > 0;
  vh_count("tables_at_repair", ntab);
  vh_count("logs_at_repair", nlog);
  vh_count("wal_records_converted", pre.wal_records);
  vh_count("wal_updates_converted", pre.wal_updates);
  vh_count("disk_entries_decoded", pre.n);
  if (any_multi) vh_count("cases_multi_table_key", 1);
  if (any_mis) vh_count("cases_misordered", 1);
  if (wal_nonempty) vh_count("cases_wal_nonempty", 1);
  if (any_multi && wal_nonempty) vh_count("cases_multi_table_and_wal", 1);
  vh_count("keys_misordered_predicted", (uint64_t)mis_keys);
  vh_distinct("c19_state", "%s|%s|%d|%d", variant_name[H->variant], H->pre_sig, any_mis, wal_nonempty);
  vh_distinct("c19_state_extra", "%s|%s|%s|%d|%d|cmp%d", variant_name[H->variant], extra_name[H->extra], H->pre_sig, any_mis,
              wal_nonempty, H->h.cfg.cmp_kind);

  /* --- 5. repair */
  DBG_T("expectation");
  rc = ldb_repair(H->h.dir, &H->h.opt);
  vh_count("repairs", 1);
  if (rc != LDB_OK) {
    viol(H, "repair-failed", "ldb_repair returned %d (%s); %zu tables and %zu logs were present", rc, ldb_strerror(rc), ntab, nlog);
    goto out;
  }

  DBG_T("ldb_repair");
  /* what repair left: directory listing, lost/, table contents */
  H->npost = dir_list(H->h.dir, &H->post_names);
  disk_scan(H, H->h.dir, &post);
  H->max_before = pre.max_data_number;
  if (post.max_data_number > H->max_before) H->max_before = post.max_data_number;
  if (post.max_manifest > H->max_before) H->max_before = post.max_manifest;
  {
    char lost[800], **ln;
    int nl, k;
    snprintf(lost, sizeof(lost), "%s/lost", H->h.dir);
    nl = dir_list(lost, &ln);
    for (k = 0; k < nl; k++) {
      uint64_t num;
      size_t j;
      if (iom_classify(ln[k], &num) != PC_TABLE) continue;
      lost_tables++;
      for (j = 0; j < H->npre_tables; j++) {
        if (H->pre_tables[j] == num && H->pre_table_ok[j])
          viol(H, "intact-table-moved-to-lost", "table #%llu decodes without error with the reference reader but repair "
               "moved it to lost/", (unsigned long long)num);
      }
    }
    /* every table that existed is either still there or archived */
    for (i = 0; i < H->npre_tables; i++) {
      char nm[64];
      snprintf(nm, sizeof(nm), "%06llu.ldb", (unsigned long long)H->pre_tables[i]);
      if (!name_in(H->post_names, H->npost, nm) && !(nl > 0 && name_in(ln, nl, nm)))
        viol(H, "table-dropped-not-archived", "table #%llu (%s) is neither in the directory nor in lost/ after repair",
             (unsigned long long)H->pre_tables[i], H->pre_table_ok[i] ? "intact" : "damaged");
    }
    if (nl > 0) dir_free(ln, nl);
    vh_count("lost_tables_archived", (uint64_t)lost_tables);
  }
  /* file level: the tables repair left hold, per key, the same newest version as the files before */
  if (post.foreign || post.unmatched)
    viol(H, "repaired-files-differ", "after repair: %s", post.problem);
  P = calloc(nrows, sizeof(exp_t));
  expect_build(H, &post, P);
  {
    int ndiff = 0, first = -1;
    for (i = 0; i < nrows; i++) {
      const exp_t *a = &H->E[i], *b = &P[i];
      int same = (a->have && a->present) == (b->have && b->present) && (!(a->have && a->present) || a->seq == b->seq);
      if (!same) { ndiff++; if (first < 0) first = (int)i; }
    }
    if (ndiff > 0)
      viol(H, "repaired-files-differ", "the tables left by repair disagree with the surviving files on %d key(s); first: "
           "key '%s' before: %s seq=%llu in %s #%llu; after: %s seq=%llu in table #%llu (WAL records before repair: %zu)",
           ndiff, vh_esc(H->m.rows[first].key, H->m.rows[first].klen),
           H->E[first].have ? (H->E[first].present ? "value" : "deletion") : "nothing", (unsigned long long)H->E[first].seq,
           H->E[first].is_log ? "log" : "table", (unsigned long long)H->E[first].file,
           P[first].have ? (P[first].present ? "value" : "deletion") : "nothing", (unsigned long long)P[first].seq,
           (unsigned long long)P[first].file, pre.wal_records);
  }
  free(P);
  for (i = 0; i < post.n; i++) if (post.e[i].seq > max_seq_disk) max_seq_disk = post.e[i].seq;
  disk_free(&post);

  DBG_T("post-repair decode");
  /* open, with the background thread parked at its first table creation */
  c = H->h.cfg;
  if (vr_chance(&H->r, 500)) { cfg_mutate_reopen(&c, &H->r); dbh_set_cfg(&H->h, &c); }
  gate = iom_gate_arm(IOP_CREATE, PC_TABLE, 1);
  rc = dbh_open(&H->h, 0);
  if (rc != LDB_OK) {
    gate_off();
    viol(H, "open-after-repair-failed", "ldb_open after a successful ldb_repair returned %d (%s)", rc, ldb_strerror(rc));
    goto out;
  }
  ldb_verif_counters(H->h.db, ctr);
  if (ctr[3] < max_seq_disk)
    viol(H, "sequence-not-above-existing", "after repair + open the last sequence number is %llu but the tables hold entries up "
         "to sequence %llu: those entries are invisible now and later writes will be ordered BELOW them",
         (unsigned long long)ctr[3], (unsigned long long)max_seq_disk);
  {
    /* (vi) continued: every table that was on disk before is live now or archived */
    layout_t l;
    if (dbh_layout(H->h.db, &l)) {
      char lost[800], **ln;
      int nl;
      snprintf(lost, sizeof(lost), "%s/lost", H->h.dir);
      nl = dir_list(lost, &ln);
      for (i = 0; i < H->npre_tables; i++) {
        char nm[64];
        snprintf(nm, sizeof(nm), "%06llu.ldb", (unsigned long long)H->pre_tables[i]);
        if (!layout_has(&l, H->pre_tables[i]) && !(nl > 0 && name_in(ln, nl, nm)))
          viol(H, "table-dropped-not-archived", "%s table #%llu is neither part of the repaired database (leveldb.sstables) "
               "nor archived in lost/: its contents are gone", H->pre_table_ok[i] ? "intact" : "damaged",
               (unsigned long long)H->pre_tables[i]);
      }
      if (nl > 0) dir_free(ln, nl);
      vh_distinct("c19_layout_after_repair", "%s", layout_sig(&l));
      layout_free(&l);
    }
  }
  parked = check_phase(H, "after-repair-open", gate);
  if (parked) vh_count("opens_with_parked_compaction", 1);
  check_file_numbers(H, "after-repair-open");
  check_phase(H, "after-repair-compaction", -1);

  DBG_T("open+2 phases");
  /* (iv) follow-up */
  followup_writes(H);
  do_flush(H);
  switch (vr_uniform(&H->r, 4)) {
    case 0: ldb_compact(H->h.db, NULL, NULL); break;
    case 1: do_crange(H, 0, NULL, NULL); break;
    case 2: structural(H, 2); break;
    default: structural(H, 1); break;
  }
  ldb_verif_wait_idle(H->h.db);
  check_phase(H, "after-followup", -1);
  check_file_numbers(H, "after-followup");
  dbh_close(&H->h);
  rc = dbh_open(&H->h, 0);
  if (rc != LDB_OK) {
    viol(H, "reopen-after-followup-failed", "ldb_open after repair + follow-up + clean close returned %d (%s)", rc, ldb_strerror(rc));
    goto out;
  }
  ldb_verif_wait_idle(H->h.db);
  check_phase(H, "after-reopen", -1);
  check_file_numbers(H, "after-reopen");
  dbh_close(&H->h);

  DBG_T("followup+2 phases");
out:
  gate_off();
  dbh_close(&H->h);
  disk_free(&pre);
}

/* ------------------------------------------------------------------ */
/* one case */

typedef struct opts_s { int steps_max, tmpl, variant, extra, end, many; } opts_t;

static void pre_close_sanity(rm_t *H) {
  size_t i;
  char pf[400];
  /* H->E == NULL: expect_row answers with the model's latest state */
  for (i = 0; i < H->m.nrows; i++) {
    int present, touched;
    uint64_t ver;
    res_t g;
    expect_row(H, (int)i, &present, &ver, &touched);
    get_one(H, (int)i, ver, &g);
    if (!res_matches(&g, present, ver))
      vh_fatal("case %d: BEFORE the repair the database already disagrees with the model for key '%s' (expected %s seq "
               "%llu, got %s): not a C19 observation, see C01", H->caseidx, vh_esc(H->m.rows[i].key, H->m.rows[i].klen),
               present ? "value" : "absent", (unsigned long long)ver, res_str(H, (int)i, &g));
  }
  if (!scan_all(H, 0, H->fres, pf, sizeof(pf)))
    vh_fatal("case %d: BEFORE the repair: %s", H->caseidx, pf);
  for (i = 0; i < H->m.nrows; i++) {
    int present, touched;
    uint64_t ver;
    expect_row(H, (int)i, &present, &ver, &touched);
    if (!res_matches(&H->fres[i], present, ver))
      vh_fatal("case %d: BEFORE the repair the forward scan disagrees with the model for key '%s'", H->caseidx,
               vh_esc(H->m.rows[i].key, H->m.rows[i].klen));
  }
}

static void random_step(rm_t *H) {
  static const int w_put = 300, w_del = 70, w_batch = 50, w_flush = 28, w_crange = 40, w_cman = 5, w_call = 2,
                   w_reopen = 6, w_snap = 20, w_unsnap = 18;
  int total = w_put + w_del + w_batch + w_flush + w_crange + w_cman + w_call + w_reopen + w_snap + w_unsnap;
  int c = (int)vr_uniform(&H->r, (uint32_t)total);
  int row = pick_row(H);
#define TAKE(x) (c < (x) ? 1 : (c -= (x), 0))
  if (TAKE(w_put)) do_put(H, row, pick_vlen(H));
  else if (TAKE(w_del)) do_del(H, row);
  else if (TAKE(w_batch)) do_batch(H);
  else if (TAKE(w_flush)) structural(H, 0);
  else if (TAKE(w_crange)) structural(H, 1);
  else if (TAKE(w_cman)) structural(H, 2);
  else if (TAKE(w_call)) structural(H, 3);
  else if (TAKE(w_reopen)) do_reopen(H);
  else if (TAKE(w_snap)) snap_take(H);
  else if (H->nsnaps > 0) snap_release_at(H, (int)vr_uniform(&H->r, (uint32_t)H->nsnaps));
#undef TAKE
}

static void run_case(uint64_t seed, int caseidx, const char *base, const opts_t *o) {
  rm_t *H = calloc(1, sizeof(rm_t));
  cfg_t cfg;
  char dir[600];
  int nkeys, rc, pos[3], k;
  layout_t l;
  double t0 = vh_now();
  uint32_t c;

  H->seed = seed;
  H->caseidx = caseidx;
  dbg_t0 = vh_now();
  vr_seed(&H->r, seed * 1000003ULL + (uint64_t)caseidx * 7919ULL + 0xC19C19ULL);
  cfg_random(&cfg, &H->r);
  nkeys = 30 + (int)vr_uniform(&H->r, 270);
  m_init(&H->m, cfg.cmp_kind);
  universe_generate(&H->m, &H->r, nkeys);
  H->vbuf = malloc(MAX_VAL);
  H->gres = calloc(H->m.nrows, sizeof(res_t));
  H->fres = calloc(H->m.nrows, sizeof(res_t));
  H->bres = calloc(H->m.nrows, sizeof(res_t));
  H->steps = o->steps_max < 100 ? o->steps_max : 100 + (int)vr_uniform(&H->r, (uint32_t)(o->steps_max - 100 + 1));
  H->allow_big = vr_chance(&H->r, 125);
  /* templates: the F4 recipe in every third case, the other two with probability 1/3 each */
  H->tmpl_mask = (caseidx % 3 == 0 ? T_F4 : 0) | (vr_chance(&H->r, 333) ? T_TOMB : 0) | (vr_chance(&H->r, 333) ? T_SNAP : 0);
  if (o->tmpl >= 0) H->tmpl_mask = o->tmpl;
  for (k = 0; k < 3; k++) {
    c = vr_uniform(&H->r, 5);
    pos[k] = c == 0 ? 0 : c == 1 ? H->steps / 2 : H->steps;
  }
  H->variant = o->variant >= 0 ? o->variant : (int)vr_uniform(&H->r, V_KINDS);
  c = vr_uniform(&H->r, 100);
  H->extra = c < 80 ? X_NONE : c < 88 ? X_DEL_TABLE : c < 94 ? X_DEL_WAL : X_CORRUPT_TABLE;
  if (o->extra >= 0) H->extra = o->extra;
  H->end_wal = o->end >= 0 ? o->end : (int)vr_uniform(&H->r, 2);
  snprintf(H->pre_sig, sizeof(H->pre_sig), "?");
  snprintf(dir, sizeof(dir), "%s/case-%d", base, caseidx);
  vh_rm_rf(dir);
  vh_set_context("repairmon seed=%llu case=%d", (unsigned long long)seed, caseidx);

  iom_gate_clear();
  iom_trace_reset();
  iom_clear_roots();
  iom_add_root(dir);

  dbh_init(&H->h, dir, &cfg);
  rc = dbh_open(&H->h, 1);
  if (rc != LDB_OK) vh_fatal("case %d: cannot create database: %d", caseidx, rc);

  /* --- 1. history */
  for (H->step = 0; H->step < H->steps; H->step++) {
    run_templates_at(H, pos, H->step);
    random_step(H);
  }
  pos[0] = pos[1] = pos[2] = 0;
  run_templates_at(H, pos, 0);

  /* --- 2. end state.  The comparison with the model comes first: its scan pins a version, and a
     compaction finishing meanwhile could not delete its inputs; the flush / compactions that
     follow garbage-collect such files again. */
  release_everything(H);
  ldb_verif_wait_idle(H->h.db);
  pre_close_sanity(H);
  ldb_verif_wait_idle(H->h.db);
  if (H->end_wal) {
    int n = 5 + (int)vr_uniform(&H->r, 36);
    if (vr_chance(&H->r, 500)) do_flush(H);
    for (k = 0; k < n; k++) {
      c = vr_uniform(&H->r, 100);
      if (c < 65) do_put(H, pick_row(H), 8 + vr_uniform(&H->r, 1500));
      else if (c < 85) do_del(H, pick_row(H));
      else do_batch(H);
    }
  } else {
    do_flush(H);
  }
  ldb_verif_wait_idle(H->h.db);
  if (vr_chance(&H->r, 120)) {
    /* obsolete tables left behind on purpose: an iterator pins the inputs of a manual compaction
       and is destroyed afterwards; nothing deletes them before the close, repair will pick them
       up as "surviving files" (the expectation is computed from the files, so it follows) */
    ldb_iter_t *it = ldb_iterator(H->h.db, NULL);
    ldb_iter_first(it);
    do_crange(H, (int)vr_uniform(&H->r, 4), NULL, NULL);
    ldb_verif_wait_idle(H->h.db);
    ldb_iter_destroy(it);
    vh_count("cases_with_pinned_compaction_before_close", 1);
  }
  if (o->many > 0 || (o->many < 0 && vr_chance(&H->r, 140))) {
    /* many surviving tables whose ranges all contain every key: each flush writes the first and the
       last row plus a few others, and an iterator taken after each flush pins that flush's table, so
       the inputs of the automatic compactions stay on disk until the close.  After the repair all
       of them sit in level 0: far more than the 12 files level 0 ever holds in normal operation. */
    ldb_iter_t *pins[24];
    int nf = 14 + (int)vr_uniform(&H->r, 9), f, j, hot = pick_row(H);
    for (f = 0; f < nf; f++) {
      int extra = 1 + (int)vr_uniform(&H->r, 6);
      do_put(H, 0, 8 + vr_uniform(&H->r, 200));
      do_put(H, (int)H->m.nrows - 1, 8 + vr_uniform(&H->r, 200));
      if (vr_chance(&H->r, 700)) do_put(H, hot, 8 + vr_uniform(&H->r, 400));
      for (j = 0; j < extra; j++) {
        if (vr_chance(&H->r, 800)) do_put(H, pick_row(H), 8 + vr_uniform(&H->r, 600));
        else do_del(H, pick_row(H));
      }
      do_flush(H);
      pins[f] = ldb_iterator(H->h.db, NULL);
      ldb_iter_first(pins[f]);
    }
    ldb_verif_wait_idle(H->h.db);
    for (f = 0; f < nf; f++) ldb_iter_destroy(pins[f]);
    vh_count("cases_with_many_pinned_tables_before_close", 1);
  }
  if (!dbh_layout(H->h.db, &l)) vh_fatal("case %d: leveldb.sstables not served", caseidx);
  {
    size_t i;
    uint64_t mx = 0;
    for (i = 0; i < l.n; i++) if (l.files[i].number > mx) mx = l.files[i].number;
    H->pre_level_cap = (size_t)mx + 1;
    H->pre_level = malloc(H->pre_level_cap * sizeof(int));
    for (i = 0; i < H->pre_level_cap; i++) H->pre_level[i] = -1;
    for (i = 0; i < l.n; i++) H->pre_level[l.files[i].number] = l.files[i].level;
    snprintf(H->pre_sig, sizeof(H->pre_sig), "%s", layout_sig(&l));
    layout_free(&l);
  }
  dbh_close(&H->h);
  H->base_version = H->m.version;

  /* --- 3..6 */
  repair_part(H);

  /* evidence */
  vh_count("cases", 1);
  vh_count("steps", (uint64_t)H->steps);
  vh_count("flushes", (uint64_t)H->flushes);
  vh_count("manual_compactions", (uint64_t)H->compactions);
  vh_count("reopens", (uint64_t)H->reopens);
  vh_count("snapshots_taken", (uint64_t)H->snaps_taken);
  vh_count("engine_compactions", H->h.log.compacting);
  vh_count("engine_trivial_moves", H->h.log.moved);
  vh_count("engine_reused_logs", H->h.log.reusing);
  if (H->f4_keys > 0) vh_count("cases_f4_observed", 1);
  if (caseidx % 8 == 0 || H->other_viol > 0) {
    size_t i, mis = 0, multi = 0, live = 0;
    for (i = 0; H->E != NULL && i < H->m.nrows; i++) {
      mis += H->E[i].misordered != 0;
      multi += H->E[i].ntables >= 2;
      live += H->E[i].have && H->E[i].present;
    }
    vh_sample(PROP, "case %d seed %llu: cfg=%s keys=%zu steps=%d templates=%s%s%s flushes=%d manual_compactions=%d reopens=%d "
              "snapshots=%d end=%s layout-before=%s variant=%s extra=%s | surviving keys=%zu, keys in >=2 tables=%zu, keys whose "
              "newest version is NOT in the highest-numbered table=%zu, stale lookups diagnosed as the known level-0 shape=%d, "
              "other violations=%d wall=%.2fs",
              caseidx, (unsigned long long)seed, cfg_id(&cfg), H->m.nrows, H->steps, (H->tmpl_mask & T_F4) ? "F4 " : "",
              (H->tmpl_mask & T_TOMB) ? "tomb " : "", (H->tmpl_mask & T_SNAP) ? "snap" : "", H->flushes, H->compactions,
              H->reopens, H->snaps_taken, H->end_wal ? "wal" : "flushed", H->pre_sig, variant_name[H->variant],
              extra_name[H->extra], live, multi, mis, H->f4_keys, H->other_viol, vh_now() - t0);
  }
  if (getenv("RM_DEBUG")) fprintf(stderr, "[rm] case %d wall %.2fs steps %d big %d\n", caseidx, vh_now() - t0, H->steps, H->allow_big);
  diag_drop(H);
  dbh_destroy(&H->h);
  vh_rm_rf(dir);
  if (H->post_names != NULL) dir_free(H->post_names, H->npost);
  m_free(&H->m);
  free(H->vbuf); free(H->gres); free(H->fres); free(H->bres);
  free(H->E); free(H->pre_level); free(H->pre_tables); free(H->pre_table_ok);
  free(H);
}

int main(int argc, char **argv) {
  uint64_t seed = 1;
  int first = 0, count = 1, i;
  opts_t o = {800, -1, -1, -1, -1, -1};
  const char *base = "/dev/shm/verif-repairmon";
  for (i = 1; i < argc; i++) {
    if (!strcmp(argv[i], "--seed") && i + 1 < argc) seed = strtoull(argv[++i], NULL, 0);
    else if (!strcmp(argv[i], "--first") && i + 1 < argc) first = atoi(argv[++i]);
    else if (!strcmp(argv[i], "--count") && i + 1 < argc) count = atoi(argv[++i]);
    else if (!strcmp(argv[i], "--steps-max") && i + 1 < argc) o.steps_max = atoi(argv[++i]);
    else if (!strcmp(argv[i], "--dir") && i + 1 < argc) base = argv[++i];
    else if (!strcmp(argv[i], "--variant") && i + 1 < argc) o.variant = atoi(argv[++i]);
    else if (!strcmp(argv[i], "--extra") && i + 1 < argc) o.extra = atoi(argv[++i]);
    else if (!strcmp(argv[i], "--end") && i + 1 < argc) o.end = !strcmp(argv[i + 1], "wal") ? 1 : 0, i++;
    else if (!strcmp(argv[i], "--many") && i + 1 < argc) o.many = atoi(argv[++i]);
    else if (!strcmp(argv[i], "--template") && i + 1 < argc) {
      const char *t = argv[++i];
      o.tmpl = !strcmp(t, "none") ? 0 : !strcmp(t, "f4") ? T_F4 : !strcmp(t, "tomb") ? T_TOMB : !strcmp(t, "snap") ? T_SNAP :
               !strcmp(t, "all") ? (T_F4 | T_TOMB | T_SNAP) : -1;
    } else {
      fprintf(stderr, "unknown argument %s\n", argv[i]);
      return 2;
    }
  }
  if (o.variant >= V_KINDS || o.extra >= X_KINDS) { fprintf(stderr, "bad --variant/--extra\n"); return 2; }
  vh_init(NULL);
  mallopt(M_MMAP_THRESHOLD, 64 << 20);
  mallopt(M_TRIM_THRESHOLD, 256 << 20);
  /* the harness thread is never observed by iomon; only lcdb's background thread is
     (a gate parks it at its first table creation after the repair-open) */
  iom_pause(1);
  vh_mkdir_p(base);
  for (i = first; i < first + count; i++) run_case(seed, i, base, &o);
  vh_finish();
  return 0;
}

/* corruptmon - C11: corrupted files are detected, never turned into wrong answers.
 *
 * A small database (3-8 tables over >= 3 levels, small blocks, a live WAL, a
 * MANIFEST with several edits) is generated with the real library and closed.
 * Then ONE alteration per case is applied to a copy: each single-bit flip, byte
 * := 00 / FF, truncation at that offset, a zero-filled 512-byte sector.
 *  - table faults (paranoid_checks=1, verify_checksums=1): every get returns the
 *    model value / NOTFOUND-iff-absent / an error status; a scan that ends with
 *    status OK equals the model exactly (both directions); open may fail.
 *  - WAL / MANIFEST / CURRENT faults (both paranoid settings): open may fail; if
 *    it succeeds the contents are the fold of the whole batches whose marker is
 *    present - never a value that was not written, never part of a batch.
 *
 * usage: corruptmon --seed S --db N --shard K --nshards M --stride B --dir D [--exhaustive 1]
 */
#include <errno.h>
#include <fcntl.h>
#include <malloc.h>
#include <signal.h>
#include <sys/stat.h>
#include <unistd.h>

#include "dbh.h"
#include "iomon.h"
#include "refcodec.h"
#include "vh.h"

#define NKEYS 240
#define MAXFILES 64

typedef struct upd_s { int key, del; uint64_t vid; uint32_t vlen; } upd_t;
typedef struct batch_s { int id, nupd; upd_t *upd; } batch_t;
typedef struct fimg_s { char name[64]; uint8_t *data; size_t len; int pc; uint64_t num; uint8_t *region; } fimg_t;

static batch_t *batches;
static int nbatches, capbatches;
static fimg_t files[MAXFILES];
static int nfiles;
static vrng_t R;
static uint8_t *vbuf;
static cfg_t cfg;
static char cur_case[400];
static uint64_t g_seed = 1;
static int g_db = 0;

enum { RG_DATA = 1, RG_TRAILER, RG_INDEX, RG_FILTER, RG_METAINDEX, RG_FOOTER_HANDLES, RG_FOOTER_PADDING, RG_MAGIC, RG_OTHER, RG_N };
static const char *region_name[] = {"?", "data-block", "block-trailer", "index-block", "filter-block", "metaindex-block",
                                    "footer-handles", "footer-padding", "magic", "other"};
enum { A_BIT, A_ZERO, A_FF, A_TRUNC, A_SECTOR, A_N };
static const char *alt_name[] = {"bitflip", "byte00", "byteff", "truncate", "zero-sector"};

/* keys are not NUL-terminated: never atoi() them */
static int parse_num(const char *p, size_t n) {
  int v = 0;
  size_t i;
  if (n == 0 || n > 9) return -1;
  for (i = 0; i < n; i++) { if (p[i] < '0' || p[i] > '9') return -1; v = v * 10 + (p[i] - '0'); }
  return v;
}

static size_t data_key(char *buf, int idx) { return (size_t)sprintf(buf, "d/%04d", idx); }
static size_t marker_key(char *buf, int id) { return (size_t)sprintf(buf, "m/%08d", id); }
static uint64_t make_vid(int batch, int idx, int odd) { return ((((uint64_t)batch << 16) | (uint64_t)(idx & 0xffff)) << 1) | (uint64_t)(odd & 1); }
static int vid_batch(uint64_t vid) { return (int)(vid >> 17); }

static void issue_batch(dbh_t *h, int n) {
  batch_t *b;
  ldb_batch_t *wb = ldb_batch_create();
  char kb[32];
  ldb_slice_t k, v;
  uint64_t idv;
  int i, rc;
  if (nbatches == capbatches) { capbatches = capbatches ? capbatches * 2 : 256; batches = realloc(batches, (size_t)capbatches * sizeof(batch_t)); }
  b = &batches[nbatches];
  b->id = ++nbatches;
  b->nupd = n;
  b->upd = calloc((size_t)n + 1, sizeof(upd_t));
  idv = (uint64_t)b->id;
  k = ldb_slice(kb, marker_key(kb, b->id));
  v = ldb_slice(&idv, 8);
  ldb_batch_put(wb, &k, &v);
  for (i = 0; i < n; i++) {
    upd_t *u = &b->upd[i];
    u->key = (int)vr_uniform(&R, NKEYS);
    u->del = vr_chance(&R, 120);
    k = ldb_slice(kb, data_key(kb, u->key));
    if (u->del) ldb_batch_del(wb, &k);
    else {
      u->vlen = vr_chance(&R, 850) ? 8 + vr_uniform(&R, 120) : 200 + vr_uniform(&R, 1500);
      u->vid = make_vid(b->id, i, (int)(vr_next(&R) & 1));
      vh_fill_value(vbuf, u->vlen, u->vid);
      v = ldb_slice(vbuf, u->vlen);
      ldb_batch_put(wb, &k, &v);
    }
  }
  rc = ldb_write(h->db, wb, NULL);
  ldb_batch_destroy(wb);
  if (rc != LDB_OK) vh_fatal("generation: write failed rc=%d", rc);
}

/* expected contents for a set S of batches */
typedef struct exp_s { int present; uint64_t vid; uint32_t vlen; int batch; } exp_t;

static void fold(const uint8_t *S, exp_t *out) {
  int i, j;
  memset(out, 0, sizeof(exp_t) * NKEYS);
  for (i = 0; i < nbatches; i++) {
    if (S != NULL && !S[batches[i].id]) continue;
    for (j = 0; j < batches[i].nupd; j++) {
      const upd_t *u = &batches[i].upd[j];
      out[u->key].present = !u->del; out[u->key].vid = u->vid; out[u->key].vlen = u->vlen; out[u->key].batch = batches[i].id;
    }
  }
}

/* ------------------------------------------------------------------ */

static void generate_db(const char *dir) {
  dbh_t h;
  int round, i, rounds = 4 + (int)vr_uniform(&R, 3);
  dbh_init(&h, dir, &cfg);
  if (dbh_open(&h, 1) != LDB_OK) vh_fatal("generation: cannot create database");
  for (round = 0; round < rounds; round++) {
    int nb = 8 + (int)vr_uniform(&R, 10);
    for (i = 0; i < nb; i++) issue_batch(&h, 1 + (int)vr_uniform(&R, 8));
    if (ldb_test_compact_memtable(h.db) != LDB_OK) vh_fatal("generation: flush failed");
    if (round == 0) { ldb_test_compact_range(h.db, 0, NULL, NULL); ldb_test_compact_range(h.db, 1, NULL, NULL); }
    else if (round == 1) ldb_test_compact_range(h.db, 0, NULL, NULL);
    else if (round == 2 && vr_chance(&R, 500)) ldb_test_compact_range(h.db, 0, NULL, NULL);
  }
  /* a live WAL: several records, one of them spanning two (odd databases) or four (even databases) 32 KiB
     blocks: FIRST, MIDDLE and LAST fragments with whole blocks in between that an alteration can wipe out */
  for (i = 0; i < 6; i++) issue_batch(&h, 1 + (int)vr_uniform(&R, 6));
  {
    batch_t *b;
    ldb_batch_t *wb = ldb_batch_create();
    char kb[32];
    ldb_slice_t k, v;
    uint64_t idv;
    int j, nbig = (g_db % 2 == 0) ? 75 : 30;
    if (nbatches == capbatches) { capbatches *= 2; batches = realloc(batches, (size_t)capbatches * sizeof(batch_t)); }
    b = &batches[nbatches];
    b->id = ++nbatches;
    b->nupd = nbig;
    b->upd = calloc((size_t)nbig + 1, sizeof(upd_t));
    idv = (uint64_t)b->id;
    k = ldb_slice(kb, marker_key(kb, b->id));
    v = ldb_slice(&idv, 8);
    ldb_batch_put(wb, &k, &v);
    for (j = 0; j < nbig; j++) {
      upd_t *u = &b->upd[j];
      u->key = (int)vr_uniform(&R, NKEYS);
      u->vlen = 1200 + vr_uniform(&R, 400);
      u->vid = make_vid(b->id, j, 1);
      vh_fill_value(vbuf, u->vlen, u->vid);
      k = ldb_slice(kb, data_key(kb, u->key));
      v = ldb_slice(vbuf, u->vlen);
      ldb_batch_put(wb, &k, &v);
    }
    if (ldb_write(h.db, wb, NULL) != LDB_OK) vh_fatal("generation: big batch failed");
    ldb_batch_destroy(wb);
  }
  for (i = 0; i < 4; i++) issue_batch(&h, 1 + (int)vr_uniform(&R, 4));
  ldb_verif_wait_idle(h.db);
  {
    layout_t l;
    if (dbh_layout(h.db, &l)) {
      int lv = 0, k2;
      for (k2 = 0; k2 < 7; k2++) lv += l.per_level[k2] > 0;
      vh_count("generated_tables", l.n);
      vh_count("generated_levels_used", (uint64_t)lv);
      layout_free(&l);
    }
  }
  dbh_close(&h);
  dbh_destroy(&h);
}

static void classify_table(fimg_t *f) {
  rc_table_t t;
  size_t i;
  f->region = malloc(f->len + 1);
  memset(f->region, RG_OTHER, f->len);
  if (rc_table_decode(f->data, f->len, &t) != 0) { rc_table_free(&t); vh_fatal("generated table %s does not decode: %s", f->name, t.err); }
  for (i = 0; i < t.nblocks; i++) {
    memset(f->region + t.blocks[i].offset, RG_DATA, t.blocks[i].size);
    memset(f->region + t.blocks[i].offset + t.blocks[i].size, RG_TRAILER, 5);
  }
  memset(f->region + t.index_off, RG_INDEX, t.index_size);
  memset(f->region + t.index_off + t.index_size, RG_TRAILER, 5);
  memset(f->region + t.metaindex_off, RG_METAINDEX, t.metaindex_size);
  memset(f->region + t.metaindex_off + t.metaindex_size, RG_TRAILER, 5);
  if (t.filter != NULL && t.filter_len > 0) {
    /* the filter block sits between the last data block and the metaindex block */
    size_t fo = t.nblocks ? t.blocks[t.nblocks - 1].offset + t.blocks[t.nblocks - 1].size + 5 : 0;
    if (fo + t.filter_len + 5 <= t.metaindex_off) { memset(f->region + fo, RG_FILTER, t.filter_len); memset(f->region + fo + t.filter_len, RG_TRAILER, 5); }
  }
  if (f->len >= 48) {
    size_t fs = f->len - 48;
    uint64_t x;
    int a = 0, n1, n2, n3, n4;
    const uint8_t *p = f->data + fs, *lim = f->data + f->len - 8;
    memset(f->region + fs, RG_FOOTER_PADDING, 40);
    memset(f->region + f->len - 8, RG_MAGIC, 8);
    n1 = rc_get_varint64(p, lim, &x); if (n1 > 0) { a += n1; n2 = rc_get_varint64(p + a, lim, &x); if (n2 > 0) { a += n2;
    n3 = rc_get_varint64(p + a, lim, &x); if (n3 > 0) { a += n3; n4 = rc_get_varint64(p + a, lim, &x); if (n4 > 0) a += n4; } } }
    memset(f->region + fs, RG_FOOTER_HANDLES, (size_t)a);
  }
  vh_count("table_blocks", t.nblocks);
  rc_table_free(&t);
}

static void load_files(const char *dir) {
  char **names;
  int n = dir_list(dir, &names), i;
  nfiles = 0;
  for (i = 0; i < n && nfiles < MAXFILES; i++) {
    char path[700];
    struct stat st;
    fimg_t *f = &files[nfiles];
    int fd;
    ssize_t got = 0, r;
    snprintf(path, sizeof(path), "%s/%s", dir, names[i]);
    if (stat(path, &st) != 0 || !S_ISREG(st.st_mode)) continue;
    snprintf(f->name, sizeof(f->name), "%s", names[i]);
    f->pc = iom_classify(names[i], &f->num);
    if (f->pc == PC_LOCK) continue;
    f->len = (size_t)st.st_size;
    f->data = malloc(f->len + 1);
    fd = open(path, O_RDONLY);
    while (fd >= 0 && got < st.st_size && (r = read(fd, f->data + got, (size_t)(st.st_size - got))) > 0) got += r;
    if (fd >= 0) close(fd);
    f->region = NULL;
    if (f->pc == PC_TABLE) classify_table(f);
    nfiles++;
  }
  dir_free(names, n);
}

static char src_dir[600];

/* unaltered files are hard links to the pristine copy: the library never writes an existing
   table / log / MANIFEST in place when reuse_logs is off (it only creates, renames and unlinks) */
static void materialise(const char *dir, int which, const uint8_t *alt, size_t altlen) {
  int i;
  vh_rm_rf(dir);
  if (mkdir(dir, 0755) != 0) vh_fatal("mkdir %s", dir);
  for (i = 0; i < nfiles; i++) {
    char path[700], from[700];
    int fd;
    snprintf(path, sizeof(path), "%s/%s", dir, files[i].name);
    if (i != which) {
      snprintf(from, sizeof(from), "%s/%s", src_dir, files[i].name);
      if (link(from, path) == 0) continue;
    }
    {
      const uint8_t *d = i == which ? alt : files[i].data;
      size_t n = i == which ? altlen : files[i].len;
      fd = open(path, O_WRONLY | O_CREAT | O_TRUNC, 0644);
      if (fd < 0) vh_fatal("open %s", path);
      if (n && write(fd, d, n) != (ssize_t)n) vh_fatal("write %s", path);
      close(fd);
    }
  }
}

/* ------------------------------------------------------------------ */
/* oracles */

static uint64_t outcome[8];
enum { O_OPEN_FAILED, O_ALL_CORRECT, O_ERROR_STATUS_SEEN, O_SUBSET_OF_BATCHES };

static void check_table_fault(const char *dir) {
  dbh_t h;
  cfg_t c = cfg;
  exp_t exp[NKEYS];
  char kb[32];
  int rc, k, pass, errors = 0;
  c.paranoid = 1;
  c.use_mmap = (int)(vr_next(&R) & 1);
  c.cache_kind = (int)vr_uniform(&R, 3);
  dbh_init(&h, dir, &c);
  rc = dbh_open(&h, 0);
  if (rc != LDB_OK) { outcome[O_OPEN_FAILED]++; dbh_destroy(&h); return; }
  fold(NULL, exp);
  for (k = 0; k < NKEYS; k++) {
    ldb_readopt_t ro = *ldb_readopt_default;
    ldb_slice_t key = ldb_slice(kb, data_key(kb, k)), v;
    ro.verify_checksums = 1;
    rc = ldb_get(h.db, &key, &v, &ro);
    vh_count("gets", 1);
    if (rc == LDB_OK) {
      if (!exp[k].present || v.size != exp[k].vlen || vh_value_vid(v.data, v.size) != exp[k].vid || !vh_check_value(v.data, v.size, exp[k].vid))
        vh_violation("C11", exp[k].present ? "get-wrong-value" : "get-phantom-value",
                     "%s: get(%s) returned OK with %zu bytes vid %llx (batch %d); model: %s vid %llx len %u", cur_case, kb, v.size,
                     (unsigned long long)vh_value_vid(v.data, v.size), vid_batch(vh_value_vid(v.data, v.size)),
                     exp[k].present ? "value" : "absent", (unsigned long long)exp[k].vid, exp[k].vlen);
      ldb_free(v.data);
    } else if (rc == LDB_NOTFOUND) {
      if (exp[k].present)
        vh_violation("C11", "get-silently-misses-live-key", "%s: get(%s) says NOTFOUND but the key is live (vid %llx batch %d)",
                     cur_case, kb, (unsigned long long)exp[k].vid, exp[k].batch);
    } else errors++;
  }
  for (pass = 0; pass < 2; pass++) {
    ldb_readopt_t ro = *ldb_iteropt_default;
    ldb_iter_t *it;
    int seen[NKEYS], nm = 0, bad = 0, st;
    char why[200] = "";
    ro.verify_checksums = 1;
    memset(seen, 0, sizeof(seen));
    it = ldb_iterator(h.db, &ro);
    for (pass ? ldb_iter_last(it) : ldb_iter_first(it); ldb_iter_valid(it); pass ? ldb_iter_prev(it) : ldb_iter_next(it)) {
      ldb_slice_t key = ldb_iter_key(it), v = ldb_iter_value(it);
      const char *kp = key.data;
      if (key.size == 6 && kp[0] == 'd' && kp[1] == '/') {
        int idx = parse_num(kp + 2, key.size - 2);
        if (idx < 0 || idx >= NKEYS || !exp[idx].present || v.size != exp[idx].vlen || vh_value_vid(v.data, v.size) != exp[idx].vid ||
            !vh_check_value(v.data, v.size, exp[idx].vid)) {
          if (!bad) snprintf(why, sizeof(why), "entry %s has %zu bytes vid %llx, model %s vid %llx", vh_esc(key.data, key.size), v.size,
                             (unsigned long long)vh_value_vid(v.data, v.size), (idx >= 0 && idx < NKEYS && exp[idx].present) ? "value" : "absent",
                             (unsigned long long)(idx >= 0 && idx < NKEYS ? exp[idx].vid : 0));
          bad = 1;
        } else seen[idx] = 1;
      } else if (key.size == 10 && kp[0] == 'm' && kp[1] == '/') nm++;
      else { if (!bad) snprintf(why, sizeof(why), "unknown key %s", vh_esc(key.data, key.size)); bad = 1; }
    }
    st = ldb_iter_status(it);
    ldb_iter_destroy(it);
    vh_count("scans", 1);
    if (st != LDB_OK) { errors++; continue; }    /* the user must ignore the partial output */
    if (!bad) {
      for (k = 0; k < NKEYS; k++) if (exp[k].present && !seen[k]) { snprintf(why, sizeof(why), "live key d/%04d missing from the scan", k); bad = 2; break; }
      if (!bad && nm != nbatches) { snprintf(why, sizeof(why), "%d of %d marker keys present", nm, nbatches); bad = 2; }
    }
    if (bad)
      vh_violation("C11", bad == 2 ? "scan-silently-omits-live-key" : "scan-wrong-entry", "%s: %s scan ended with status OK but %s",
                   cur_case, pass ? "backward" : "forward", why);
  }
  outcome[errors ? O_ERROR_STATUS_SEEN : O_ALL_CORRECT]++;
  dbh_close(&h);
  dbh_destroy(&h);
}

static void check_meta_fault(const char *dir, int paranoid) {
  dbh_t h;
  cfg_t c = cfg;
  uint8_t *S = calloc((size_t)nbatches + 2, 1);
  exp_t exp[NKEYS];
  struct { int present; uint64_t vid; size_t len; int ok; } act[NKEYS];
  ldb_iter_t *it;
  int rc, k, unknown = 0, st, ns = 0;
  char umsg[120] = "";
  c.paranoid = paranoid;
  dbh_init(&h, dir, &c);
  rc = dbh_open(&h, 0);
  if (rc != LDB_OK) { outcome[O_OPEN_FAILED]++; dbh_destroy(&h); free(S); return; }
  memset(act, 0, sizeof(act));
  it = ldb_iterator(h.db, NULL);
  for (ldb_iter_first(it); ldb_iter_valid(it); ldb_iter_next(it)) {
    ldb_slice_t key = ldb_iter_key(it), v = ldb_iter_value(it);
    const char *kp = key.data;
    if (key.size == 10 && kp[0] == 'm' && kp[1] == '/') {
      int id = parse_num(kp + 2, key.size - 2);
      uint64_t idv = 0;
      if (v.size == 8) memcpy(&idv, v.data, 8);
      if (id >= 1 && id <= nbatches && idv == (uint64_t)id) { S[id] = 1; ns++; }
      else { unknown++; snprintf(umsg, sizeof(umsg), "marker %s", vh_esc(key.data, key.size)); }
    } else if (key.size == 6 && kp[0] == 'd' && kp[1] == '/') {
      int idx = parse_num(kp + 2, key.size - 2);
      if (idx >= 0 && idx < NKEYS) { act[idx].present = 1; act[idx].len = v.size; act[idx].vid = vh_value_vid(v.data, v.size); act[idx].ok = vh_check_value(v.data, v.size, act[idx].vid); }
      else { unknown++; snprintf(umsg, sizeof(umsg), "key %s", vh_esc(key.data, key.size)); }
    } else { unknown++; snprintf(umsg, sizeof(umsg), "key %s", vh_esc(key.data, key.size)); }
  }
  st = ldb_iter_status(it);
  ldb_iter_destroy(it);
  vh_count("scans", 1);
  if (st == LDB_OK) {
    if (unknown) vh_violation("C11", "value-never-written", "%s: %d unknown entries after open, e.g. %s", cur_case, unknown, umsg);
    fold(S, exp);
    for (k = 0; k < NKEYS; k++) {
      int bad = (exp[k].present != act[k].present) || (exp[k].present && (exp[k].vid != act[k].vid || exp[k].vlen != act[k].len || !act[k].ok));
      if (bad) {
        int ab = act[k].present ? vid_batch(act[k].vid) : 0;
        const char *key = "contents-not-a-fold-of-whole-batches";
        if (act[k].present && (!act[k].ok || ab < 1 || ab > nbatches)) key = "value-never-written";
        else if (act[k].present && ab >= 1 && ab <= nbatches && !S[ab]) key = "partial-batch-update-without-marker";
        else if (exp[k].present && !act[k].present) key = "partial-batch-marker-without-update";
        vh_violation("C11", key, "%s: key d/%04d: %d of %d batches present; expected %s vid %llx (batch %d), got %s vid %llx (batch %d) len %zu",
                     cur_case, k, ns, nbatches, exp[k].present ? "value" : "absent", (unsigned long long)exp[k].vid, exp[k].batch,
                     act[k].present ? "value" : "absent", (unsigned long long)act[k].vid, ab, act[k].len);
        break;
      }
    }
    outcome[ns == nbatches ? O_ALL_CORRECT : O_SUBSET_OF_BATCHES]++;
  } else {
    outcome[O_ERROR_STATUS_SEEN]++;
  }
  dbh_close(&h);
  dbh_destroy(&h);
  free(S);
}

static void on_fatal_signal(int sig) {
  char buf[700];
  int n = snprintf(buf, sizeof(buf), "{\"t\":\"viol\",\"prop\":\"C11\",\"key\":\"crash-on-corrupted-file\",\"ctx\":\"corruptmon\",\"msg\":\"signal %d during %s\"}\n", sig, cur_case);
  if (n > 0) { ssize_t w = write(1, buf, (size_t)n); (void)w; }
  signal(sig, SIG_DFL);
  raise(sig);
}

int main(int argc, char **argv) {
  int shard = 0, nshards = 1, stride = 16, exhaustive = 0, i, fi;
  const char *base = "/dev/shm/verif-corruptmon";
  char src[600], work[600];
  uint64_t caseno = 0;
  for (i = 1; i < argc; i++) {
    if (!strcmp(argv[i], "--seed") && i + 1 < argc) g_seed = strtoull(argv[++i], NULL, 0);
    else if (!strcmp(argv[i], "--db") && i + 1 < argc) g_db = atoi(argv[++i]);
    else if (!strcmp(argv[i], "--shard") && i + 1 < argc) shard = atoi(argv[++i]);
    else if (!strcmp(argv[i], "--nshards") && i + 1 < argc) nshards = atoi(argv[++i]);
    else if (!strcmp(argv[i], "--stride") && i + 1 < argc) stride = atoi(argv[++i]);
    else if (!strcmp(argv[i], "--exhaustive") && i + 1 < argc) exhaustive = atoi(argv[++i]);
    else if (!strcmp(argv[i], "--dir") && i + 1 < argc) base = argv[++i];
    else { fprintf(stderr, "unknown argument %s\n", argv[i]); return 2; }
  }
  vh_init(NULL);
  mallopt(M_MMAP_THRESHOLD, 64 << 20);
  signal(SIGSEGV, on_fatal_signal); signal(SIGABRT, on_fatal_signal); signal(SIGBUS, on_fatal_signal); signal(SIGFPE, on_fatal_signal);
  vbuf = malloc(4096);
  vr_seed(&R, g_seed * 1000003ULL + (uint64_t)g_db * 7919ULL);
  vh_set_context("corruptmon seed=%llu db=%d shard=%d/%d", (unsigned long long)g_seed, g_db, shard, nshards);
  snprintf(src, sizeof(src), "%s/db%d-s%d/src", base, g_db, shard);
  snprintf(work, sizeof(work), "%s/db%d-s%d/work", base, g_db, shard);
  vh_rm_rf(src); vh_mkdir_p(src); vh_rm_rf(src);

  cfg_default(&cfg);
  cfg.write_buffer_size = 256 << 10;   /* the live WAL holds a record of ~105 KiB: no memtable switch before the close */
  cfg.max_file_size = 1 << 20;
  cfg.block_size = 1024 << (g_db % 3);
  cfg.restart = (g_db & 1) ? 4 : 16;
  cfg.compression = (g_db >> 1) & 1;
  cfg.filter_bits = (g_db % 3 != 1) ? 10 : 0;
  cfg.reuse_logs = 0;
  snprintf(cur_case, sizeof(cur_case), "[generation of database %d]", g_db);
  generate_db(src);
  snprintf(src_dir, sizeof(src_dir), "%s", src);
  load_files(src);
  vh_count("databases", 1);
  /* sanity: the unaltered copy is fully correct */
  materialise(work, -1, NULL, 0);
  snprintf(cur_case, sizeof(cur_case), "[db %d unaltered copy]", g_db);
  check_table_fault(work);
  if (vh_nviolations() > 0 || outcome[O_ALL_CORRECT] != 1) vh_fatal("the unaltered database does not verify");
  memset(outcome, 0, sizeof(outcome));

  for (fi = 0; fi < nfiles; fi++) {
    fimg_t *f = &files[fi];
    uint8_t *alt = malloc(f->len + 1);
    size_t off;
    int is_table = f->pc == PC_TABLE;
    if (!(is_table || f->pc == PC_LOG || f->pc == PC_MANIFEST || f->pc == PC_CURRENT)) { free(alt); continue; }
    uint8_t *dense = calloc(f->len + 1, 1);
    if (!is_table) {
      /* dense around every physical record header of a log / MANIFEST and around block edges */
      size_t q, b;
      if (f->pc == PC_CURRENT) memset(dense, 1, f->len);
      else {
        size_t pos = 0;
        while (pos + 7 <= f->len) {
          size_t left = 32768 - (pos % 32768), plen;
          if (left < 7) { pos += left; continue; }
          plen = (size_t)f->data[pos + 4] | ((size_t)f->data[pos + 5] << 8);
          for (q = pos; q < pos + 9 && q < f->len; q++) dense[q] = 1;
          if (pos + 7 + plen > f->len) break;
          if (plen > 0) dense[pos + 7 + plen - 1] = 1;
          pos += 7 + plen;
        }
        for (b = 32768; b < f->len; b += 32768) for (q = b - 8; q < b + 8 && q < f->len; q++) dense[q] = 1;
        for (q = f->len > 8 ? f->len - 8 : 0; q < f->len; q++) dense[q] = 1;
      }
    }
    for (off = 0; off < f->len; off++) {
      int rg = is_table ? f->region[off] : RG_OTHER;
      int is_dense = exhaustive || (is_table ? (rg != RG_DATA && rg != RG_INDEX && rg != RG_FILTER) : dense[off]);
      if (!is_dense && is_table && (rg == RG_INDEX || rg == RG_FILTER) && stride >= 8 &&
          (vh_hash64(&off, sizeof(off), (uint64_t)fi + 7) % (uint64_t)(stride / 8)) == 0) is_dense = 1;
      int a, only_sector = 0;
      if (!is_dense && (vh_hash64(&off, sizeof(off), (uint64_t)fi) % (uint64_t)stride) != 0) {
        if (off % 512 == 0) only_sector = 1; else continue;
      }
      for (a = only_sector ? 11 : 0; a < 12; a++) {
        /* a: 0..7 bit flips, 8 := 00, 9 := ff, 10 truncate here, 11 zero sector containing off */
        size_t altlen = f->len;
        int kind;
        uint64_t ck[3];
        ck[0] = (uint64_t)fi; ck[1] = off; ck[2] = (uint64_t)a;
        if ((vh_hash64(ck, sizeof(ck), 99) % (uint64_t)nshards) != (uint64_t)shard) continue;
        caseno++;
        memcpy(alt, f->data, f->len);
        if (a < 8) { alt[off] ^= (uint8_t)(1u << a); kind = A_BIT; if (!is_dense && a != (int)(off % 8)) continue; }
        else if (a == 8) { if (alt[off] == 0) continue; alt[off] = 0; kind = A_ZERO; }
        else if (a == 9) { if (alt[off] == 0xff) continue; alt[off] = 0xff; kind = A_FF; }
        else if (a == 10) { altlen = off; kind = A_TRUNC; }
        else {
          size_t s0 = off & ~(size_t)511, s1 = s0 + 512 > f->len ? f->len : s0 + 512, q;
          int changed = 0;
          if (off != s0 && !(off == 0)) continue;      /* once per sector */
          for (q = s0; q < s1; q++) { if (alt[q]) changed = 1; alt[q] = 0; }
          if (!changed) continue;
          kind = A_SECTOR;
        }
        snprintf(cur_case, sizeof(cur_case), "[db %d cfg %s: %s %s at offset %zu/%zu of %s (%s)%s]", g_db, cfg_id(&cfg), alt_name[kind],
                 a < 8 ? "bit" : "", off, f->len, f->name, is_table ? region_name[rg] : iom_pcname[f->pc], a < 8 ? "" : "");
        materialise(work, fi, alt, altlen);
        vh_count("cases", 1);
        {
          char nm[64];
          snprintf(nm, sizeof(nm), "cases_%s", iom_pcname[f->pc]);
          vh_count(nm, 1);
          snprintf(nm, sizeof(nm), "alt_%s", alt_name[kind]);
          vh_count(nm, 1);
        }
        vh_distinct("c11_case_class", "%s|%s|%s", iom_pcname[f->pc], is_table ? region_name[rg] : "-", alt_name[kind]);
        if (is_table) check_table_fault(work);
        else { check_meta_fault(work, 1); check_meta_fault(work, 0); }
        if (caseno % 2003 == 1) vh_sample("C11", "%s -> outcomes so far: open failed %llu, fully correct %llu, error status reported %llu, subset of whole batches %llu",
                                          cur_case, (unsigned long long)outcome[O_OPEN_FAILED], (unsigned long long)outcome[O_ALL_CORRECT],
                                          (unsigned long long)outcome[O_ERROR_STATUS_SEEN], (unsigned long long)outcome[O_SUBSET_OF_BATCHES]);
      }
    }
    free(alt);
    free(dense);
  }
  vh_count("outcome_open_failed", outcome[O_OPEN_FAILED]);
  vh_count("outcome_fully_correct_harmless", outcome[O_ALL_CORRECT]);
  vh_count("outcome_error_status_reported", outcome[O_ERROR_STATUS_SEEN]);
  vh_count("outcome_subset_of_whole_batches", outcome[O_SUBSET_OF_BATCHES]);
  {
    char top[600];
    snprintf(top, sizeof(top), "%s/db%d-s%d", base, g_db, shard);
    vh_rm_rf(top);
  }
  vh_finish();
  return 0;
}

"""Per-property check definitions (what to run, how to count, floors)."""
import json
import os
import sys
import time

import build
import runner
from runner import Job, Agg

REGISTRY = {}

HIST_SRC = ["histmon.c", "layoutmon.c", "refcodec.c", "dbh.c", "model.c", "vh.c", "iomon.c"]

HARNESSES = {
    # name: (sources, wrap list)
    "histmon": (HIST_SRC, build.WRAP_IO),
    "racemon": (["racemon.c", "dbh.c", "model.c", "vh.c", "iomon.c"], build.WRAP_IO),
    "concmon": (["concmon.c", "vsched.c", "dbh.c", "model.c", "vh.c", "iomon.c"], build.WRAP_IO + build.WRAP_SCHED),
    "faultmon": (["faultmon.c", "dbh.c", "model.c", "vh.c", "iomon.c"], build.WRAP_IO),
    "dbtool": (["dbtool.c", "dbh.c", "model.c", "vh.c", "iomon.c"], build.WRAP_IO),
    "crashmon": (["crashmon.c", "refcodec.c", "dbh.c", "model.c", "vh.c", "iomon.c"], build.WRAP_IO),
}


class Ctx:
    def __init__(self, prop, tier, seed, scratch, replay=None):
        self.prop = prop
        self.tier = tier
        self.seed = seed
        self.scratch = scratch
        self.replay = replay
        self.t0 = time.time()
        self.quick = tier == "quick"


def register(name):
    def deco(fn):
        REGISTRY[name] = fn
        return fn
    return deco


def harness(name, flavour):
    srcs, wrap = HARNESSES[name]
    return build.build_harness(name, flavour, srcs, wrap=wrap)


def hjob(name, flavour, args, tag, timeout=900, env=None):
    """A job running harness `name` of `flavour`; meta lets --replay rebuild it."""
    exe = harness(name, flavour)
    e = dict(SAN_ENV.get(flavour, {}))
    if env:
        e.update(env)
    return Job([exe] + [str(a) for a in args], tag, env=e, timeout=timeout,
               meta=dict(harness=name, flavour=flavour, args=[str(a) for a in args]))


SAN_ENV = {
    "asan": {"ASAN_OPTIONS": "abort_on_error=1:detect_leaks=0:allocator_may_return_null=1:handle_abort=1",
             "UBSAN_OPTIONS": "print_stacktrace=1:halt_on_error=1"},
    "tsan": {"TSAN_OPTIONS": "halt_on_error=0:second_deadlock_stack=1:report_signal_unsafe=0"},
    "ctsan": {"TSAN_OPTIONS": "halt_on_error=0:second_deadlock_stack=1:report_signal_unsafe=0"},
}


def setup():
    for fl in ("rel", "asan", "tsan"):
        build.build_lib(fl)
    for name in HARNESSES:
        for fl in HARNESS_FLAVOURS.get(name, ("rel",)):
            harness(name, fl)


HARNESS_FLAVOURS = {
    "histmon": ("rel", "asan"),
}


def do_replay(ctx):
    """Re-run the job recorded in a replay file; verdict by the same aggregation."""
    with open(ctx.replay) as f:
        rp = json.load(f)
    meta = rp.get("meta") or {}
    if "harness" not in meta:
        print("replay file has no job description")
        return 2
    job = hjob(meta["harness"], meta["flavour"], meta["args"], "replay", env=rp.get("env"))
    agg = Agg().add(runner.run_jobs([job], progress=False))
    hits = [v for v in agg.violations if v.get("prop") == ctx.prop]
    for v in hits[:10]:
        print("replayed violation key=%s: %s" % (v.get("key"), (v.get("msg") or "")[:800]))
    if agg.crashes:
        print("replay: monitor process died: %s" % (agg.crashes[0]["stderr"] or "")[-1500:])
    if hits or agg.crashes:
        print("VIOLATION property=%s replay=%s" % (ctx.prop, ctx.replay))
        return 1
    print("replay did not reproduce (timing-dependent cases may need several attempts)")
    return 0


# ---------------------------------------------------------------------------
# histmon family: C01 C06 C07 C13 C14


def hist_jobs(ctx, focus, ncases, steps_max, flavour="rel", per_proc=None, first=0):
    per = per_proc or max(1, ncases // runner.NPROC)
    jobs = []
    i = first
    while i < first + ncases:
        n = min(per, first + ncases - i)
        d = os.path.join(ctx.scratch, "h-%s-%s-%d" % (focus, flavour, i))
        jobs.append(hjob("histmon", flavour,
                         ["--seed", ctx.seed, "--first", i, "--count", n, "--focus", focus,
                          "--steps-max", steps_max, "--dir", d],
                         "%s/%s/%d+%d" % (focus, flavour, i, n), timeout=1800))
        i += n
    return jobs


def hist_common_extras(agg):
    return dict(
        histories=agg.n("cases"), steps=agg.n("steps"), flushes=agg.n("flushes"),
        manual_compactions=agg.n("manual_compactions"), engine_compactions=agg.n("log_compactions"),
        trivial_moves=agg.n("log_trivial_moves"), level0_tables=agg.n("log_level0_tables"),
        reopens=agg.n("reopens"), reused_logs=agg.n("log_reused_logs"),
        full_cross_checks=agg.n("full_checks"), full_cross_checks_multilevel=agg.n("full_checks_multilevel"),
        point_reads_latest=agg.n("gets_latest"), point_reads_snapshot=agg.n("gets_snapshot"),
        shadow_reads_during_structural_ops=agg.n("shadow_reads"),
        iterator_calls=agg.n("iter_calls"), scans=agg.n("scans"),
        templates=dict(T1_straddle=agg.n("template_T1"), T2_tombstone=agg.n("template_T2"),
                       T3_overlap=agg.n("template_T3"), T4_level0_chain=agg.n("template_T4"), T5_grown_straddle=agg.n("template_T5")),
        straddle_layouts_seen=agg.n("c14_straddle_layouts"),
        flushes_forced_in_the_middle_of_a_compaction=agg.n("midc_flush_during_compaction"),
        distinct_layout_signatures=agg.d("layout"),
    )


@register("C01")
def c01(ctx):
    """Reads return the latest write (histmon, model oracle after every step)."""
    if ctx.replay:
        return do_replay(ctx)
    if ctx.quick:
        jobs = hist_jobs(ctx, "c01", 64, 1200) + hist_jobs(ctx, "c01", 8, 700, flavour="asan", first=1000, per_proc=1)
    else:
        jobs = hist_jobs(ctx, "c01", 800, 3000, per_proc=20) + \
            hist_jobs(ctx, "c01", 96, 1500, flavour="asan", first=100000, per_proc=8)
    agg = Agg().add(runner.run_jobs(jobs))
    extras = hist_common_extras(agg)
    return runner.finish(
        "C01", "exploration", ctx.tier, ctx.seed, ctx.t0, agg,
        rule="random operation histories (put/del/batch/get/has/flush/compact_range/compact/reopen/snapshots/"
             "iterators) x random option configurations x 3 layout templates, every read compared with a versioned "
             "sorted-map model; non-trivial+distinct = distinct (configuration, files-per-level layout) pairs at which "
             "a full cross-check of all keys passed",
        evaluations=agg.n("cases"), distinct_nontrivial=agg.d("c01_cfg_layout"), extras=extras,
        floors=dict(histories=(agg.n("cases"), 8), engine_compactions=(agg.n("log_compactions"), 5),
                    reopens=(agg.n("reopens"), 5), multilevel_checks=(agg.n("full_checks_multilevel"), 5),
                    nontrivial_histories=(agg.n("nontrivial_histories"), 3),
                    shadow_reads=(agg.n("shadow_reads"), 100), straddles=(agg.n("c14_straddle_layouts"), 1)),
        assumptions=["the model (harness/model.c) is the specification of a sorted map with versions",
                     "background-thread timing is not controlled in this check (see C08 for schedules)"])


@register("C06")
def c06(ctx):
    """Snapshots are immutable views (histmon, frozen model per snapshot)."""
    if ctx.replay:
        return do_replay(ctx)
    if ctx.quick:
        jobs = hist_jobs(ctx, "c06", 48, 1000) + hist_jobs(ctx, "c06", 8, 600, flavour="asan", first=1000, per_proc=1) + \
            conc_jobs(ctx, 8, 40, native=0, variant=[0, 1], first=300000, tag="c06") + enum_jobs(ctx, 300, 4, 1, 1, tag="c06")
    else:
        jobs = hist_jobs(ctx, "c06", 640, 2500, per_proc=16) + \
            hist_jobs(ctx, "c06", 96, 1200, flavour="asan", first=100000, per_proc=8) + \
            conc_jobs(ctx, 16, 300, native=0, variant=[0, 1], first=300000, tag="c06") + \
            conc_jobs(ctx, 4, 100, native=1, variant=[0, 1], first=3000000, tag="c06n") + enum_jobs(ctx, 300, 2, 2, 16, tag="c06")
    agg = Agg().add(runner.run_jobs(jobs))
    extras = hist_common_extras(agg)
    extras.update(snapshots_taken=agg.n("snapshots_taken"), snapshot_revalidations=agg.n("snapshot_revalidations"),
                  concurrent_part=dict(schedules=agg.n("schedules"),
                                       snapshot_views_checked_as_consistent_cuts=agg.n("views_checked"),
                                       snapshot_views_reread_before_release=agg.n("snapshot_views_reread_before_release"),
                                       views_overlapping_a_write=agg.n("views_overlapping_a_write"),
                                       systematic_enumeration=enum_extras(agg)))
    return runner.finish(
        "C06", "exploration", ctx.tier, ctx.seed, ctx.t0, agg,
        rule="histories with 0..12 simultaneously live snapshots; after every flush/compaction/periodically every "
             "live snapshot is re-read completely (all keys + forward and backward scan) against the model frozen at "
             "its version; distinct = (number of live snapshots, oldest/middle/newest, triggering structural op) states "
             "validated; concurrent part (serialising scheduler, writers committing while readers hold snapshots): every "
             "snapshot is read by get, by an iterator and by get again before its release and must not move, and must be "
             "a consistent cut of the writers' batches",
        evaluations=agg.n("snapshot_revalidations"), distinct_nontrivial=agg.d("c06_state"), extras=extras,
        floors=dict(histories=(agg.n("cases"), 8), revalidations=(agg.n("snapshot_revalidations"), 200),
                    snapshot_reads=(agg.n("gets_snapshot"), 5000), compactions=(agg.n("log_compactions"), 5),
                    concurrent_rereads=(agg.n("snapshot_views_reread_before_release"), 100)),
        assumptions=["model freeze point = model version when ldb_snapshot returned (single writer thread)"])


@register("C07")
def c07(ctx):
    """Iterators: consistent, ordered, complete, both directions (model cursor after every call)."""
    if ctx.replay:
        return do_replay(ctx)
    if ctx.quick:
        jobs = hist_jobs(ctx, "c07", 96, 1200) + hist_jobs(ctx, "c07", 8, 700, flavour="asan", first=1000, per_proc=1)
    else:
        jobs = hist_jobs(ctx, "c07", 1200, 4000, per_proc=16) + \
            hist_jobs(ctx, "c07", 200, 1500, flavour="asan", first=100000, per_proc=8)
    agg = Agg().add(runner.run_jobs(jobs))
    extras = hist_common_extras(agg)
    extras.update(iterators_opened=agg.n("iters_opened"))
    return runner.finish(
        "C07", "exploration", ctx.tier, ctx.seed, ctx.t0, agg,
        rule="2..6 live iterators per history driven by random first/last/seek/seek_ge/gt/le/lt/next/prev sequences "
             "(biased to direction changes), kept open across writes, flushes, compactions, file deletion; valid/key/"
             "value/status compared with a model cursor after EVERY call; distinct = (call, previous direction, "
             "position class, target kind, hit/miss) tuples exercised",
        evaluations=agg.n("iter_calls"), distinct_nontrivial=agg.d("itercall"), extras=extras,
        floors=dict(iter_calls=(agg.n("iter_calls"), 20000), distinct_calls=(agg.d("itercall"), 60),
                    compactions=(agg.n("log_compactions"), 5)),
        assumptions=["iterator view = model version at creation (or the snapshot's version)"])


@register("C13")
def c13(ctx):
    """Files are deleted exactly when nobody needs them (I/O trace monitors + exact directory listing)."""
    if ctx.replay:
        return do_replay(ctx)
    if ctx.quick:
        jobs = hist_jobs(ctx, "c13", 96, 1000) + crash_jobs(ctx, "c05", 6, 40, 0, 2, 6, first=500) + \
            crash_jobs(ctx, "c03", 10, 90, 0, 2, 12, first=600)
    else:
        jobs = hist_jobs(ctx, "c13", 1000, 2500, per_proc=16) + crash_jobs(ctx, "c05", 32, 150, 0, 2, 20, first=500) + \
            crash_jobs(ctx, "c03", 64, 300, 0, 3, 40, first=600)
    agg = Agg().add(runner.run_jobs(jobs))
    extras = hist_common_extras(agg)
    extras.update(crash_images_recovered=agg.n("images"),
                  orphan_checks_after_crash_recovery=agg.n("leak_checks_after_recovery"),
                  post_crash_traces_checked_for_number_reuse=agg.n("post_crash_traces_checked_for_number_reuse"))
    extras.update(table_unlinks_observed=agg.n("c13_table_unlinks"),
                  unlinks_checked_against_live_iterators=agg.n("c13_unlinks_vs_live_iter"),
                  file_creations_checked_for_number_reuse=agg.n("c13_creates"),
                  exact_directory_checks=agg.n("c13_dir_checks"),
                  directory_checks_after_a_deletion=agg.n("c13_dir_checks_after_unlink"),
                  iterators_with_unknown_pin_set=agg.n("c13_pin_unknown"),
                  log_unlinks_observed=agg.n("c13_log_unlinks"),
                  log_unlinks_checked_against_the_manifest_prefix_written_before_them=agg.n("c13_log_unlinks_checked_against_manifest"),
                  log_unlinks_unchecked=agg.n("c13_log_unlinks_unchecked") + agg.n("c13_log_unlinks_manifest_prefix_undecodable"))
    return runner.finish(
        "C13", "exploration", ctx.tier, ctx.seed, ctx.t0, agg,
        rule="histories with long-lived iterators across flushes/compactions/reopens; monitors over the libc-level "
             "I/O trace (unlink vs iterator pin sets, unlink vs open output descriptors, file-number reuse, unlink of a "
             "write-ahead log vs the log number recorded by the MANIFEST bytes written before it) and exact "
             "directory listing at quiescent points; distinct = (layout signature, deletion-since-last-check) states "
             "at which the directory was exactly the live set",
        evaluations=agg.n("c13_dir_checks") + agg.n("c13_table_unlinks"),
        distinct_nontrivial=agg.d("c13_dirstate"), extras=extras,
        floors=dict(unlinks=(agg.n("c13_table_unlinks"), 50), dir_checks_after_unlink=(agg.n("c13_dir_checks_after_unlink"), 10),
                    unlinks_vs_iters=(agg.n("c13_unlinks_vs_live_iter"), 20),
                    log_unlinks_checked=(agg.n("c13_log_unlinks_checked_against_manifest"), 100)),
        assumptions=["pin set of an iterator = tables listed by leveldb.sstables when it was created (used only when "
                     "the listing is identical immediately before and after creation)"])


@register("C14")
def c14(ctx):
    """Reported level structure stays well-formed (independent decode of every listed table)."""
    if ctx.replay:
        return do_replay(ctx)
    if ctx.quick:
        jobs = hist_jobs(ctx, "c14", 160, 1000)
    else:
        jobs = hist_jobs(ctx, "c14", 1000, 2500, per_proc=16)
    agg = Agg().add(runner.run_jobs(jobs))
    extras = hist_common_extras(agg)
    extras.update(layout_checks=agg.n("c14_layout_checks"), deep_checks=agg.n("c14_deep_checks"),
                  tables_decoded_independently=agg.n("c14_tables_decoded"),
                  entries_decoded=agg.n("c14_entries_decoded"),
                  reopen_layout_comparisons=agg.n("c14_reopen_layout_equal"),
                  reopen_comparisons_skipped=agg.n("c14_reopen_compare_skipped"))
    return runner.finish(
        "C14", "exploration", ctx.tier, ctx.seed, ctx.t0, agg,
        rule="at quiescent points after structural changes: leveldb.sstables parsed, every listed table decoded by the "
             "independent reader; sortedness, bounds (escaped-domain equality), sizes, level disjointness, per-user-key "
             "recency order across levels, layout equality across reopen; non-trivial = >=2 levels and a user key in "
             ">=2 files; distinct = (files-per-level, straddling boundaries, shared keys) signatures",
        evaluations=agg.n("c14_deep_checks"), distinct_nontrivial=agg.d("c14_layout"), extras=extras,
        floors=dict(deep_checks=(agg.n("c14_deep_checks"), 100), nontrivial=(agg.n("c14_nontrivial_checks"), 20),
                    straddles=(agg.n("c14_straddle_layouts"), 1), reopen_eq=(agg.n("c14_reopen_layout_equal"), 5)),
        assumptions=["harness/refcodec.c (written without lcdb headers) is a correct reader of the LevelDB table format"])


# ---------------------------------------------------------------------------
# crash explorer family: C02 C03 C04 C05 (+ C17 switch window, C13 orphans)

HARNESS_FLAVOURS["crashmon"] = ("rel",)


def crash_jobs(ctx, focus, ncases, batches, points_max, depth, nested_max, first=0, flavour="rel", writers=1, keypad=0):
    jobs = []
    for i in range(first, first + ncases):
        d = os.path.join(ctx.scratch, "cr-%s-%d" % (focus, i))
        jobs.append(hjob("crashmon", flavour,
                         ["--seed", ctx.seed, "--case", i, "--focus", focus, "--batches", batches,
                          "--points-max", points_max, "--depth", depth, "--nested-max", nested_max,
                          "--writers", writers, "--keypad", keypad, "--dir", d],
                         "%s/%d/w%d" % (focus, i, writers), timeout=3000))
    return jobs


def crash_extras(agg):
    kinds = ["max", "min", "dir-ahead", "data-ahead", "torn", "random"]
    return dict(
        workloads=agg.n("workloads"), trace_events=agg.n("trace_events"), batches_issued=agg.n("batches_issued"),
        sync_batches=agg.n("sync_batches"), large_batches=agg.n("large_batches"),
        workload_flushes=agg.n("workload_level0_tables"), workload_compactions=agg.n("workload_compactions"),
        workload_reused_logs=agg.n("workload_reused_logs"),
        group_commit_workloads=agg.n("group_commit_workloads"), group_commit_batches=agg.n("group_commit_batches"),
        group_commit_merged_batches=agg.n("group_commit_merged_batches"),
        crash_points=agg.n("crash_points"), crash_points_nested=agg.n("crash_points_nested"),
        traces_explored_exhaustively=agg.n("traces_explored_exhaustively"),
        traces_thinned=agg.n("crash_points_thinned"),
        images_recovered=agg.n("images"), images_deduplicated=agg.n("images_deduplicated"),
        images_by_kind={k: agg.n("images_" + k) for k in kinds},
        images_nested_or_chained=agg.n("images_nested"),
        nested_recoveries_explored=agg.n("nested_recoveries_explored"),
        chain_links_explored=agg.n("chain_links_explored"),
        recoveries_ok=agg.n("recoveries_ok"), second_opens=agg.n("second_opens"), followups=agg.n("followups"),
        keys_compared=agg.n("keys_compared"),
        images_with_two_logs=agg.n("images_with_two_logs"), images_with_dbtmp=agg.n("images_with_dbtmp"),
        images_with_torn_manifest_tail=agg.n("images_with_torn_manifest_tail"),
        workloads_with_multiblock_manifest=agg.n("workloads_with_multiblock_manifest"),
        kill_points_inside_multiblock_wal_record=agg.n("points_inside_multiblock_wal_record"),
        kill_points_inside_multiblock_manifest_record=agg.n("points_inside_multiblock_manifest_record"),
        current_checked=agg.n("current_checked"),
        manifests_replayed_independently=agg.n("manifests_replayed_independently"),
        leak_checks_after_recovery=agg.n("leak_checks_after_recovery"),
        distinct_crashpoint_classes=agg.d("crashpoint_class"), distinct_recovered_sets=agg.d("recovered_sets"))


CRASH_ASSUME = ["crash model exactly as stated in C02: per file a prefix >= its last fsync; directory operations in "
                "issue order, at least up to the last fsync of any file or directory; O_TRUNC = new object",
                "single foreground writer, plus group-commit workloads with 3 native writers owning disjoint keys"]


@register("C02")
def c02(ctx):
    """Synced writes survive power loss at any instant (crash explorer, all image kinds)."""
    if ctx.replay:
        return do_replay(ctx)
    if ctx.quick:
        jobs = crash_jobs(ctx, "c02", 16, 100, 0, 2, 6) + crash_jobs(ctx, "c02", 8, 90, 0, 1, 0, first=300, writers=3)
    else:
        jobs = crash_jobs(ctx, "c02", 96, 300, 0, 2, 20) + crash_jobs(ctx, "c02", 32, 240, 0, 1, 0, first=300, writers=3)
    agg = Agg().add(runner.run_jobs(jobs))
    return runner.finish(
        "C02", "fault_enumeration", ctx.tier, ctx.seed, ctx.t0, agg,
        rule="crash after EVERY state-changing event of each recorded I/O trace x image kinds {max, min, dir-ahead, "
             "data-ahead, torn(1, n/2, n-1, random), random x2}; each image materialised and recovered by the real "
             "ldb_open; required set R(p) = sync-acked batches + batches of unlinked logs; non-trivial+distinct = "
             "distinct images (by content descriptor hash) with R non-empty and unsynced bytes or directory ops withheld",
        evaluations=agg.n("images"), distinct_nontrivial=agg.d("c02_image"), extras=crash_extras(agg),
        exhaustive=(agg.n("crash_points_thinned") == 0),
        floors=dict(images=(agg.n("images"), 2000), nontrivial=(agg.d("c02_image"), 500),
                    torn=(agg.n("torn_images"), 100), sync_batches=(agg.n("sync_batches"), 50),
                    flushes=(agg.n("workload_level0_tables"), 10), merged=(agg.n("group_commit_merged_batches"), 10)),
        assumptions=CRASH_ASSUME)


@register("C03")
def c03(ctx):
    """A process crash loses nothing acknowledged (byte-exact images at every kill point, nested, chained)."""
    if ctx.replay:
        return do_replay(ctx)
    if ctx.quick:
        jobs = crash_jobs(ctx, "c03", 16, 100, 0, 2, 9) + crash_jobs(ctx, "c03", 6, 40, 0, 2, 9, first=400, keypad=2600)
    else:
        jobs = crash_jobs(ctx, "c03", 32, 200, 0, 3, 14) + crash_jobs(ctx, "c03", 8, 100, 0, 2, 12, first=400, keypad=2600)
    agg = Agg().add(runner.run_jobs(jobs))
    return runner.finish(
        "C03", "fault_enumeration", ctx.tier, ctx.seed, ctx.t0, agg,
        rule="kill after EVERY state-changing event: byte-exact image recovered by the real ldb_open; S must be exactly "
             "the acknowledged batches (+ possibly the one in flight), scan == fold(S), gets agree; sampled kill points "
             "are nested (kill inside the recovery) or chained (recover, run more acknowledged writes, kill again); "
             "distinct = distinct byte-exact images",
        evaluations=agg.n("max_images"), distinct_nontrivial=agg.d("c03_image"), extras=crash_extras(agg),
        exhaustive=(agg.n("crash_points_thinned") == 0),
        floors=dict(images=(agg.n("max_images"), 2000), chains=(agg.n("chain_links_explored"), 10),
                    nested=(agg.n("nested_recoveries_explored"), 10), two_logs=(agg.n("images_with_two_logs"), 50)),
        assumptions=CRASH_ASSUME)


@register("C05")
def c05(ctx):
    """Recovery always succeeds and yields a coherent, writable database (all images + follow-up + nested)."""
    if ctx.replay:
        return do_replay(ctx)
    if ctx.quick:
        jobs = crash_jobs(ctx, "c05", 14, 60, 0, 2, 6) + crash_jobs(ctx, "c05", 2, 40, 0, 2, 6, first=400, keypad=2600)
    else:
        jobs = crash_jobs(ctx, "c05", 40, 200, 0, 3, 16) + crash_jobs(ctx, "c05", 6, 100, 0, 2, 16, first=400, keypad=2600)
    agg = Agg().add(runner.run_jobs(jobs))
    return runner.finish(
        "C05", "fault_enumeration", ctx.tier, ctx.seed, ctx.t0, agg,
        rule="every image of C02/C03 with recovery-time paranoid_checks x reuse_logs drawn independently: open must "
             "succeed; S within issued, per-log-segment prefix, scan == fold(S); on a 1-in-3 sample plus all non-write "
             "events: second open unchanged, no orphans, follow-up workload (overwrites, deletes, flush, compaction) "
             "persists across reopen; nested/chained kill points; distinct = distinct images",
        evaluations=agg.n("images"), distinct_nontrivial=agg.d("c05_image"), extras=crash_extras(agg),
        exhaustive=(agg.n("crash_points_thinned") == 0),
        floors=dict(images=(agg.n("images"), 2000), followups=(agg.n("followups"), 300),
                    second_opens=(agg.n("second_opens"), 300), dbtmp=(agg.n("images_with_dbtmp"), 10)),
        assumptions=CRASH_ASSUME)


# ---------------------------------------------------------------------------
# C12: fault injection at the libc boundary

HARNESS_FLAVOURS["faultmon"] = ("rel", "asan")


@register("C12")
def c12(ctx):
    """I/O failures are reported and never cost acknowledged data (one fault rule per run, all sites)."""
    if ctx.replay:
        return do_replay(ctx)
    jobs = []
    if ctx.quick:
        plan = [("rel", w, 2, 5) for w in range(6)] + [("asan", 20 + w, 4, 3) for w in range(1)]
    else:
        plan = [("rel", w, 2, 20) for w in range(24)] + [("asan", 100 + w, 4, 8) for w in range(8)]
    for flavour, w, nshards, per_site in plan:
        for k in range(nshards):
            d = os.path.join(ctx.scratch, "f-%s-%d-%d" % (flavour, w, k))
            jobs.append(hjob("faultmon", flavour,
                             ["--seed", ctx.seed, "--workload", w, "--shard", k, "--nshards", nshards,
                              "--max-per-site", per_site, "--dir", d], "w%d/%d" % (w, k), timeout=3000))
    agg = Agg().add(runner.run_jobs(jobs))
    extras = dict(workloads=agg.n("reference_runs") // 1, fault_sites_enumerated=agg.n("sites_enumerated"),
                  cases=agg.n("cases"), cases_where_rule_fired=agg.n("cases_fired"),
                  cases_open_failed_under_fault=agg.n("cases_open_failed_under_fault"),
                  cases_reopen_failed_under_fault=agg.n("cases_reopen_failed_under_fault"),
                  cases_failure_surfaced_in_write_status=agg.n("cases_failure_surfaced_in_write_status"),
                  cases_latched_all_later_writes_fail=agg.n("cases_latched_all_later_writes_fail"),
                  cases_with_acked_writes_after_the_fault=agg.n("cases_fired_with_later_acked_writes"),
                  writes_ok=agg.n("writes_ok"), writes_failed=agg.n("writes_failed"),
                  reads_checked=agg.n("reads_ok"), reads_returning_error_status=agg.n("reads_error_status"),
                  stuck_call_watcher="armed in every monitor process: a call that completes no step while the library "
                                     "makes more than max(60000, 3x the reference run's total) intercepted calls, or while "
                                     "every thread is blocked at 200 consecutive samples, is reported (sum of limits: %d)"
                                     % agg.n("stuck_call_watcher_io_limit"))
    return runner.finish(
        "C12", "fault_enumeration", ctx.tier, ctx.seed, ctx.t0, agg,
        rule="reference run counts occurrences per (libc call class, file class); sites (call, file class, n-th occurrence: "
             "first 3, last 4, stride in between) x {one-shot, persistent} x errno {ENOSPC, EIO, EMFILE/ENOENT for opens} x "
             "{clean failure, short write}; the same workload runs with the rule armed (incl. a reopen under the fault); "
             "then the fault is cleared and both close+reopen and a kill image must hold every batch that returned OK, "
             "whole batches only; no crash, no call that fails to return (logical stuck-call watcher); non-trivial = rule fired; distinct = (call, file class, phase, mode, surfaced?) tuples",
        evaluations=agg.n("cases"), distinct_nontrivial=agg.d("c12_site"), extras=extras,
        floors=dict(cases_fired=(agg.n("cases_fired"), 500), later_acked=(agg.n("cases_fired_with_later_acked_writes"), 100),
                    distinct_sites=(agg.d("c12_site"), 40)),
        assumptions=["faults are injected at the libc boundary of this build (open/write/fsync/rename/unlink/close/mkdir/"
                     "read/lseek/mmap/opendir); one rule per run", "single foreground writer"])


# ---------------------------------------------------------------------------
# concurrency family: C08 C09 (+ C04 concurrent half)

HARNESS_FLAVOURS["concmon"] = ("rel",)


def conc_jobs(ctx, nprocs, per_proc, native=0, variant=None, first=0, tag="c"):
    jobs = []
    for k in range(nprocs):
        d = os.path.join(ctx.scratch, "conc-%s-%d-%d" % (tag, native, k))
        args = ["--seed", ctx.seed, "--first", first + k * per_proc, "--count", per_proc, "--native", native, "--dir", d]
        if variant is not None:
            v = variant[k % len(variant)] if isinstance(variant, (list, tuple)) else variant
            args += ["--variant", v]
        jobs.append(hjob("concmon", "rel", args, "%s/%d/%d" % (tag, native, k), timeout=3000))
    return jobs


def enum_jobs(ctx, scen_first, nscen, depth, nshards, max2=0, tag="e"):
    """Systematic enumeration: every schedule of a tiny scenario with <= depth deviations from the default
    non-preemptive schedule (vsched.h SS_ENUM); first-level deviations sharded over nshards processes."""
    jobs = []
    for sc in range(scen_first, scen_first + nscen):
        for k in range(nshards):
            d = os.path.join(ctx.scratch, "enum-%s-%d-%d" % (tag, sc, k))
            jobs.append(hjob("concmon", "rel", ["--seed", ctx.seed, "--enum-scen", sc, "--enum-depth", depth, "--shard", k,
                                                "--nshards", nshards, "--enum-max2", max2, "--dir", d],
                             "%s/enum%d/%d" % (tag, sc, k), timeout=3000))
    return jobs


def enum_extras(agg):
    return dict(
        scenarios=agg.n("enum_scenarios"),
        one_deviation_schedules_total=agg.n("enum_depth1_total"), one_deviation_schedules_run=agg.n("enum_depth1_run"),
        two_deviation_schedules_total=agg.n("enum_depth2_total"), two_deviation_schedules_run=agg.n("enum_depth2_run"),
        complete_for_one_deviation=(agg.n("enum_depth1_total") > 0 and agg.n("enum_depth1_total") == agg.n("enum_depth1_run")),
        complete_for_two_deviations=(agg.n("enum_depth2_total") > 0 and agg.n("enum_depth2_total") == agg.n("enum_depth2_run")),
        scheduler_steps_of_the_default_schedules=agg.n("enum_baseline_steps"),
        rule="tiny scenarios (2-3 writers x 2 batches on 2 own keys + shared keys, 1 reader with get/snapshot/iterator, class 1 "
             "with a memtable flush, class 2 with sync/non-sync group commit); default schedule = non-preemptive, lowest "
             "thread id first; a schedule = default + up to two deviations (at a decision point with k runnable threads, any "
             "of the k-1 others runs instead); decision points = every mutex/condvar/thread call, every libc I/O call, the "
             "hooks inside batch insertion and between WAL append and sequence publication; each scenario is run twice "
             "first and must reproduce its switch signature (otherwise the run is inconclusive)")


def conc_extras(agg):
    variants = ["mixed", "group-commit", "buffer-stall", "l0-stop", "two-manual-compactions", "backup", "bg-error",
                "reopen-with-many-l0-files"]
    return dict(
        opens_with_level0_at_or_above_the_stop_limit=agg.n("reopen_l0_opens_at_or_above_the_stop_limit"),
        schedules=agg.n("schedules"), schedules_by_variant={v: agg.n("schedules_" + v) for v in variants},
        distinct_schedule_signatures=agg.d("schedule_signature"),
        scheduler_steps=agg.n("sched_steps"), context_switches=agg.n("sched_switches"),
        writes_acknowledged=agg.n("writes_acknowledged"), commit_groups=agg.n("commit_groups"),
        merged_commit_groups=agg.n("merged_groups_estimate"),
        memtable_flushes=agg.n("memtable_flushes"), compactions=agg.n("compactions"),
        writers_stalled_on_full_memtable=agg.n("waits_memtable_full"), writers_stalled_on_l0_files=agg.n("waits_l0_stop"),
        reads_checked_single_writer_keys=agg.n("swmr_reads_checked"),
        reads_overlapping_a_write_of_the_key=agg.n("reads_overlapping_a_write_of_the_key"),
        reads_checked_shared_keys=agg.n("shared_reads_checked"),
        snapshot_and_iterator_views_checked=agg.n("views_checked"),
        views_overlapping_a_write=agg.n("views_overlapping_a_write"),
        yield_points_between_inserts_of_a_batch=agg.n("hook_skiplist_link"),
        yield_points_between_wal_append_and_publication=agg.n("hook_write_logged"),
        condvar_waits=agg.n("cond_waits"), condvar_wakes=agg.n("cond_wakes"),
        threads_blocked_and_later_woken=agg.n("blocked_and_woken"),
        distinct_wait_wake_pairs=agg.d("wait_wake_pairs"),
        spurious_wakeups_injected=agg.n("spurious_wakeups_injected"), mutex_blocks=agg.n("mutex_blocks"),
        watchdog_expired=agg.n("watchdog_expired"),
        systematic_enumeration=enum_extras(agg))


@register("C08")
def c08(ctx):
    """Concurrent operations are linearizable (boundary histories under a serialising scheduler + native runs)."""
    if ctx.replay:
        return do_replay(ctx)
    if ctx.quick:
        jobs = conc_jobs(ctx, 16, 100, native=0, variant=[0, 0, 1, 0, 2, 0, 4, 5], tag="c08") + \
            conc_jobs(ctx, 4, 25, native=1, variant=[0, 1], first=100000, tag="c08n") + \
            enum_jobs(ctx, 0, 6, 1, 1, tag="c08") + enum_jobs(ctx, 6, 1, 2, 8, max2=24, tag="c08")
    else:
        jobs = conc_jobs(ctx, 64, 600, native=0, variant=[0, 0, 1, 0, 2, 3, 4, 5], tag="c08") + \
            conc_jobs(ctx, 16, 150, native=1, variant=[0, 1, 2], first=1000000, tag="c08n") + \
            enum_jobs(ctx, 0, 8, 2, 16, tag="c08")
    agg = Agg().add(runner.run_jobs(jobs))
    return runner.finish(
        "C08", "exploration", ctx.tier, ctx.seed, ctx.t0, agg,
        rule="2..8 threads (single-writer key sets with unique values, shared keys, snapshot/iterator views, flush/"
             "compaction/backup) under a seeded serialising scheduler (random walk, PCT, background starved/greedy) with "
             "yield points at every lock/condvar/libc I/O call and inside batch inserts, plus native runs with injected "
             "delays; histories recorded at the client boundary; checkers: SWMR register per key, Gibbons-Korach zones for "
             "shared keys, consistent cuts for views, final state; distinct = schedule signatures (hash of the switch sequence)",
        evaluations=agg.n("schedules"), distinct_nontrivial=agg.d("schedule_signature"), extras=conc_extras(agg),
        floors=dict(schedules=(agg.n("schedules"), 200), overlapping_reads=(agg.n("reads_overlapping_a_write_of_the_key"), 1000),
                    merged_groups=(agg.n("merged_groups_estimate"), 50), views=(agg.n("views_overlapping_a_write"), 200),
                    flushes=(agg.n("memtable_flushes"), 100), nontrivial=(agg.n("nontrivial_histories"), 50)),
        assumptions=["schedules of the larger scenarios are sampled (random/PCT); tiny scenarios are enumerated completely up "
                     "to one deviation (two in the sharded part) from the default schedule; the serialising scheduler runs under sequential "
                     "consistency (memory-order defects are C10's)", "timestamps = scheduler steps (logical clock)"])


@register("C09")
def c09(ctx):
    """No deadlock, lost wake-up or stuck call (logical deadlock detector of the serialising scheduler)."""
    if ctx.replay:
        return do_replay(ctx)
    if ctx.quick:
        jobs = conc_jobs(ctx, 16, 100, native=0, variant=[2, 3, 4, 5, 6, 1, 0, 8], first=50000, tag="c09") + \
            enum_jobs(ctx, 100, 6, 1, 1, tag="c09") + enum_jobs(ctx, 106, 1, 2, 8, max2=24, tag="c09")
    else:
        jobs = conc_jobs(ctx, 64, 800, native=0, variant=[2, 3, 4, 5, 6, 1, 0, 8], first=50000, tag="c09") + \
            enum_jobs(ctx, 100, 8, 2, 16, tag="c09")
    agg = Agg().add(runner.run_jobs(jobs))
    return runner.finish(
        "C09", "exploration", ctx.tier, ctx.seed, ctx.t0, agg,
        rule="stall scenarios (writers behind a group commit, full write buffer with the flush starved, level-0 stop, two "
             "concurrent manual compactions, backup during compaction, injected background errors, close right after the last "
             "call with background work scheduled) under every scheduler strategy incl. background starved / greedy and "
             "injected spurious wake-ups; violation = no runnable thread while some thread is unfinished, a call beyond the "
             "step bound, destroy of a locked mutex / waited condvar; distinct = schedule signatures; non-trivial = a thread "
             "blocked on a condition variable and was woken",
        evaluations=agg.n("schedules"), distinct_nontrivial=agg.d("schedule_signature"), extras=conc_extras(agg),
        floors=dict(schedules=(agg.n("schedules"), 200), block_and_wake=(agg.n("schedules_with_block_and_wake"), 150),
                    stalls=(agg.n("waits_memtable_full"), 100), wake_pairs=(agg.d("wait_wake_pairs"), 3)),
        assumptions=["bounded form of the liveness claim: every call returns within 6e6 scheduler steps in every explored "
                     "schedule; ldb_close concurrent with another call on the same handle is outside the handle contract"])


@register("C04")
def c04(ctx):
    """Write batches are all-or-nothing (crash images with large batches + concurrent views under the scheduler)."""
    if ctx.replay:
        return do_replay(ctx)
    if ctx.quick:
        jobs = crash_jobs(ctx, "c04", 8, 30, 0, 1, 0) + \
            conc_jobs(ctx, 8, 50, native=0, variant=[0, 1], first=200000, tag="c04") + \
            enum_jobs(ctx, 200, 6, 1, 1, tag="c04")
    else:
        jobs = crash_jobs(ctx, "c04", 32, 150, 0, 2, 12) + \
            conc_jobs(ctx, 16, 500, native=0, variant=[0, 1], first=200000, tag="c04") + \
            conc_jobs(ctx, 4, 100, native=1, variant=[0, 1], first=2000000, tag="c04n") + \
            enum_jobs(ctx, 200, 4, 2, 16, tag="c04")
    agg = Agg().add(runner.run_jobs(jobs))
    extras = crash_extras(agg)
    extras.update(conc_extras(agg))
    return runner.finish(
        "C04", "fault_enumeration", ctx.tier, ctx.seed, ctx.t0, agg,
        rule="crash half: batches of 1..3000 updates (several 32 KiB log blocks) x every crash point x all image kinds: "
             "scan == fold(markers present), a marker without one of its updates (or vice versa) is a partial batch; "
             "concurrent half: every snapshot/iterator view taken while writers commit (group commit, yields between the "
             "inserts of one batch) must equal the state after a whole number of each writer's batches; distinct = distinct "
             "crash images + schedule signatures",
        evaluations=agg.n("images") + agg.n("views_checked"),
        distinct_nontrivial=agg.d("c05_image") + agg.d("schedule_signature"), extras=extras,
        floors=dict(images=(agg.n("images"), 1500), large_batches=(agg.n("large_batches"), 20),
                    views=(agg.n("views_overlapping_a_write"), 100), torn=(agg.n("torn_images"), 100)),
        assumptions=CRASH_ASSUME + ["views are checked per writer (thread-owned key sets)"])



# ---------------------------------------------------------------------------
# C10: sanitizers on native multi-thread stress

HARNESS_FLAVOURS["racemon"] = ("tsan", "asan")

import glob
import re

_tsan_frame = re.compile(r"#\d+\s+(\S+)\s")


def parse_tsan_logs(pattern):
    """Return list of (key, text) for every ThreadSanitizer report block found in the log files."""
    out = []
    for path in glob.glob(pattern):
        try:
            txt = open(path, errors="replace").read()
        except OSError:
            continue
        for block in txt.split("=================="):
            m = re.search(r"WARNING: ThreadSanitizer: ([^\n(]+)", block)
            if not m:
                continue
            kind = m.group(1).strip().replace(" ", "-")
            # first lcdb frame of each stack section
            tops = []
            for sec in re.split(r"\n\s*\n", block):
                fr = [f for f in _tsan_frame.findall(sec) if f.startswith(("ldb_", "rb_", "snappy", "worker_thread"))]
                if fr:
                    tops.append(fr[0])
            tops = sorted(set(tops[:2]))
            out.append(("tsan:%s@%s" % (kind, "|".join(tops)), block.strip()[:3500]))
    return out


@register("C10")
def c10(ctx):
    """One handle shared by threads without data races (ThreadSanitizer + ASan/UBSan on native stress)."""
    if ctx.replay:
        return do_replay(ctx)
    jobs = []
    if ctx.quick:
        plan = [("tsan", k, 6 + k % 3, 2500) for k in range(14)] + [("asan", 100 + k, 6, 4000) for k in range(4)]
    else:
        plan = [("tsan", k, 6 + k % 3, 6000) for k in range(96)] + [("asan", 1000 + k, 8, 8000) for k in range(32)]
        try:
            build.build_lib("ctsan")
            plan += [("ctsan", 5000 + k, 6 + k % 3, 1500) for k in range(16)]
        except build.BuildError:
            pass
    logdir = os.path.join(ctx.scratch, "sanlogs")
    os.makedirs(logdir, exist_ok=True)
    for flavour, case, threads, ops in plan:
        d = os.path.join(ctx.scratch, "race-%s" % flavour)
        env = {}
        if flavour in ("tsan", "ctsan"):
            env["TSAN_OPTIONS"] = ("halt_on_error=0:second_deadlock_stack=1:report_signal_unsafe=0:history_size=4:"
                                   "log_path=%s/tsan-%s-%d" % (logdir, flavour, case))
        jobs.append(hjob("racemon", flavour, ["--seed", ctx.seed, "--case", case, "--threads", threads, "--ops", ops,
                                               "--dir", d], "%s/%d" % (flavour, case), timeout=3000, env=env))
    agg = Agg().add(runner.run_jobs(jobs))
    reports = parse_tsan_logs(os.path.join(logdir, "tsan-*"))
    extra_v = []
    seen = {}
    for key, text in reports:
        seen[key] = seen.get(key, 0) + 1
        if seen[key] == 1:
            extra_v.append(dict(prop="C10", key=key, msg=text, ctx="ThreadSanitizer report", job=jobs[0]))
    extras = dict(processes=agg.jobs, api_calls=agg.n("api_calls"), memtable_flushes=agg.n("memtable_flushes"),
                  compactions=agg.n("compactions"), table_deletions=agg.n("table_deletions"),
                  overlap_observations=agg.n("overlap_observations"),
                  thread_sanitizer_report_blocks=len(reports), distinct_thread_sanitizer_reports=len(seen),
                  flavours=sorted(set(p[0] for p in plan)))
    return runner.finish(
        "C10", "exploration", ctx.tier, ctx.seed, ctx.t0, agg,
        rule="6..8 native threads on one handle (put/del/write/get/has/iterate/snapshot/release/compact/compact_range/"
             "flush/property/approximate_sizes/backup) + a second handle sharing the block cache, minimum table cache, "
             "64 KiB write buffer, seed-driven delays at libc I/O calls and inside skiplist inserts; oracle = "
             "ThreadSanitizer report blocks counted from log files (gcc runtime; clang runtime in thorough) and "
             "ASan/UBSan aborts; distinct = API pairs observed to overlap in time",
        evaluations=agg.n("api_calls"), distinct_nontrivial=agg.d("overlapping_api_pairs"), extras=extras,
        extra_violations=extra_v,
        floors=dict(api_calls=(agg.n("api_calls"), 100000), pairs=(agg.d("overlapping_api_pairs"), 40),
                    flushes=(agg.n("memtable_flushes"), 50)),
        assumptions=["a clean sanitizer run = no race among the access pairs actually executed; GNU atomics are modelled "
                     "exactly by TSan; the harness logs through its own callback (no stdio locking noise)"])


# ---------------------------------------------------------------------------
# C15: WAL framing (fmtmon_log, independent codec as oracle)

HARNESSES["fmtmon_log"] = (["fmtmon_log.c", "vh.c", "refcodec.c"], ())
HARNESS_FLAVOURS["fmtmon_log"] = ("rel", "asan")


def fmtlog_jobs(ctx, flavour, mode, first, count, shards, extra=()):
    jobs = []
    per = max(1, count // shards)
    for k in range(shards):
        d = os.path.join(ctx.scratch, "fl-%s-%s-%d-%d" % (flavour, mode, first, k))
        os.makedirs(d, exist_ok=True)
        n = per if k < shards - 1 else count - per * (shards - 1)
        jobs.append(hjob("fmtmon_log", flavour,
                         ["--seed", ctx.seed, "--mode", mode, "--first", first + k * per, "--count", n, "--dir", d] + list(extra),
                         "%s/%s/%d" % (flavour, mode, k), timeout=3000))
    return jobs


@register("C15")
def c15(ctx):
    """WAL framing exact, standard, torn-tail tolerant (real writer/reader vs independent codec; bitwise CRC-32C)."""
    if ctx.replay:
        return do_replay(ctx)
    J = lambda *a, **k: fmtlog_jobs(ctx, *a, **k)
    if ctx.quick:
        jobs = (J("rel", "crc", 0, 72000, 1, ["--hw", 0]) + J("rel", "crc", 0, 72000, 1, ["--hw", 1]) +
                J("rel", "grid", 0, 40000, 4) + J("rel", "random", 0, 2400, 2) + J("rel", "trunc", 0, 240, 3) +
                J("rel", "trunc", 0, 512, 2, ["--exhaustive", 1]) + J("rel", "alter", 0, 480, 12) +
                J("rel", "alter", 0, 64, 4, ["--exhaustive", 1]) +
                J("asan", "grid", 0, 2000, 1) + J("asan", "alter", 0, 24, 1) + J("asan", "trunc", 0, 12, 1))
    else:
        w = 5520 + (ctx.seed * 3000000) % 9045532
        jobs = (J("rel", "crc", 0, 80000, 1, ["--hw", 0]) + J("rel", "crc", 0, 80000, 1, ["--hw", 1]) +
                J("rel", "grid", 0, 5520, 2) + J("rel", "grid", w, 3000000, 48) + J("rel", "random", 0, 100000, 16) +
                J("rel", "trunc", 0, 3200, 16) + J("rel", "trunc", 0, 25600, 16, ["--exhaustive", 1]) +
                J("rel", "alter", 0, 6400, 32) + J("rel", "alter", 0, 3840, 48, ["--exhaustive", 1]) +
                J("asan", "grid", 0, 60000, 8) + J("asan", "alter", 0, 400, 8) + J("asan", "random", 0, 2000, 4))
    agg = Agg().add(runner.run_jobs(jobs))
    n = agg.n
    evaluations = sum(n("c15_cases_" + m) for m in ("grid", "random", "trunc", "alter", "crc"))
    extras = dict(
        cases_by_mode={m: n("c15_cases_" + m) for m in ("grid", "random", "trunc", "alter", "crc")},
        records_written=n("c15_records_written"), records_read_real_reader=n("c15_records_read_real"),
        records_read_reference=n("c15_records_read_ref"), bytes_compared_with_reference_encoder=n("c15_bytes_compared"),
        real_file_variant_cases=n("c15_file_variant_cases"), multiblock_logs=n("c15_logs_multiblock"),
        cuts=n("c15_cuts"), cuts_inside_fragmented_records=n("c15_cuts_midrecord"),
        alterations=n("c15_alt_total"), alterations_by_kind={k: n("c15_alt_" + k) for k in ("bit", "zero", "ff", "burst", "zburst", "sector", "hdrfix")},
        type_byte_replaced_with_matching_crc=dict(illegal_type=n("c15_alt_hdrfix_illegal_type"),
                                                   illegal_type_on_middle_fragment=n("c15_alt_hdrfix_illegal_type_on_middle_fragment"),
                                                   other_legal_type=n("c15_alt_hdrfix_legal_type")),
        alterations_that_lost_records=n("c15_alt_lossy"), alterations_absorbed_without_loss=n("c15_alt_absorbed"),
        torn_tail_exemptions=n("c15_alt_torn_tail_exempt"), records_checked_for_resume_after_damage=n("c15_alt_resume_records_checked"),
        crc_length_alignment_pairs=n("c15_crc_len_align"), crc_chained_splits=n("c15_crc_splits"),
        crc_random_bytes=n("c15_crc_random_bytes"), crc_mask_values=n("c15_crc_mask_values"),
        crc_hardware_path_active=n("c15_crc_hw_active"), nontrivial_cases=n("c15_nontrivial_cases"))
    return runner.finish(
        "C15", "exploration", ctx.tier, ctx.seed, ctx.t0, agg,
        rule="boundary grid of (initial length, record length) round trips, random record mixes, truncation at (every / "
             "boundary-stratified) byte, single-bit/byte/burst/sector alterations: the real writer's bytes must equal an "
             "independently written encoder's, the real reader and the independent decoder must return exactly the written "
             "records, cuts are silent, alterations never yield alien records, are reported and reading resumes; CRC-32C "
             "against a bitwise reference for all lengths 0..4096 x alignments 0..15 on the portable and the hardware path; "
             "distinct = (fragment-type sequence, damage location class) shapes",
        evaluations=evaluations, distinct_nontrivial=agg.d("c15_shape"), extras=extras,
        floors=dict(grid=(n("c15_cases_grid"), 5000), cuts=(n("c15_cuts"), 50000), alts=(n("c15_alt_total"), 20000), hdrfix_middle=(n("c15_alt_hdrfix_illegal_type_on_middle_fragment"), 50),
                    crc=(n("c15_crc_len_align"), 60000), shapes=(agg.d("c15_shape"), 500)),
        assumptions=["harness/refcodec.c (no lcdb headers) implements the LevelDB log format and the bitwise CRC-32C",
                     "an altered file that is byte-for-byte a legal cut of a valid log falls under the truncation clause"])



# ---------------------------------------------------------------------------
# C11: corruption detection

HARNESSES["corruptmon"] = (["corruptmon.c", "refcodec.c", "dbh.c", "model.c", "vh.c", "iomon.c"], build.WRAP_IO)
HARNESS_FLAVOURS["corruptmon"] = ("rel", "asan")


@register("C11")
def c11(ctx):
    """Corrupted files are detected, never turned into wrong answers (byte x alteration enumeration on generated DBs)."""
    if ctx.replay:
        return do_replay(ctx)
    jobs = []
    if ctx.quick:
        plan = [("rel", db, 5, 48, 0) for db in range(3)] + [("asan", 10, 12, 96, 0)]
        plan = [(fl, db, n, st, ex, range(n) if fl == "rel" else range(1)) for fl, db, n, st, ex in plan]
    else:
        plan = [("rel", db, 16, 1, 1, range(16)) for db in range(1, 2)] + [("rel", db, 16, 6, 0, range(16)) for db in (0, 2, 3)] + \
            [("asan", 10 + db, 16, 8, 0, range(4)) for db in range(2)]
    for flavour, db, nshards, stride, exhaustive, shards in plan:
        for k in shards:
            d = os.path.join(ctx.scratch, "cor-%s-%d-%d" % (flavour, db, k))
            jobs.append(hjob("corruptmon", flavour,
                             ["--seed", ctx.seed, "--db", db, "--shard", k, "--nshards", nshards, "--stride", stride,
                              "--exhaustive", exhaustive, "--dir", d], "%s/db%d/%d" % (flavour, db, k), timeout=3000))
    agg = Agg().add(runner.run_jobs(jobs))
    n = agg.n
    extras = dict(databases_generated=n("databases"), tables_generated=n("generated_tables"),
                  cases_by_file_kind={k: n("cases_" + k) for k in ("table", "log", "manifest", "current")},
                  alterations_by_kind={k: n("alt_" + k) for k in ("bitflip", "byte00", "byteff", "truncate", "zero-sector")},
                  gets=n("gets"), scans=n("scans"),
                  outcomes=dict(open_failed=n("outcome_open_failed"), error_status_reported=n("outcome_error_status_reported"),
                                fully_correct_harmless=n("outcome_fully_correct_harmless"),
                                subset_of_whole_batches=n("outcome_subset_of_whole_batches")))
    return runner.finish(
        "C11", "fault_enumeration", ctx.tier, ctx.seed, ctx.t0, agg,
        rule="generated databases (several tables over >=3 levels, small blocks, snappy/bloom variants, live WAL, MANIFEST); "
             "one alteration per case: each bit flip, byte:=00/ff, truncation, zero-filled 512-byte sector at every byte of "
             "footer/index/metaindex/filter/trailers and a stride over data bytes (thorough: every byte of one database, stride 6 over three more) of every table, "
             "WAL, MANIFEST and CURRENT; tables under paranoid_checks+verify_checksums: get/scan correct or error status; "
             "WAL/MANIFEST/CURRENT: contents = fold of the whole batches whose marker is present; distinct = (file kind, "
             "region, alteration kind) classes",
        evaluations=n("cases"), distinct_nontrivial=agg.d("c11_case_class"), extras=extras,
        exhaustive=(not ctx.quick),
        floors=dict(cases=(n("cases"), 5000), classes=(agg.d("c11_case_class"), 25),
                    detected=(n("outcome_error_status_reported") + n("outcome_open_failed"), 1000)),
        assumptions=["single alteration per case; region map of a table from the independent decoder (refcodec)"])


# ---------------------------------------------------------------------------
# C19: repair

HARNESSES["repairmon"] = (["repairmon.c", "model.c", "dbh.c", "vh.c", "iomon.c", "refcodec.c"], build.WRAP_IO)
HARNESS_FLAVOURS["repairmon"] = ("rel", "asan")


@register("C19")
def c19(ctx):
    """Repair recovers all surviving data (histories with mis-ordered file numbers -> metadata loss -> repair -> open)."""
    if ctx.replay:
        return do_replay(ctx)
    jobs = []
    if ctx.quick:
        plan = [("rel", k * 40, 40, 800) for k in range(16)] + [("asan", 5000 + k * 3, 3, 300) for k in range(4)]
    else:
        plan = [("rel", k * 250, 250, 800) for k in range(16)] + [("asan", 50000 + k * 30, 30, 400) for k in range(16)]
    for flavour, first, count, steps in plan:
        d = os.path.join(ctx.scratch, "rep-%s-%d" % (flavour, first))
        env = {"ASAN_OPTIONS": SAN_ENV["asan"]["ASAN_OPTIONS"] + ":quarantine_size_mb=16"} if flavour == "asan" else None
        jobs.append(hjob("repairmon", flavour, ["--seed", ctx.seed, "--first", first, "--count", count, "--steps-max", steps,
                                                 "--dir", d], "%s/%d" % (flavour, first), timeout=3000, env=env))
    agg = Agg().add(runner.run_jobs(jobs))
    n = agg.n
    variants = ["del-current", "del-manifest", "del-both", "trunc-manifest", "flip-manifest", "current-missing-file", "current-garbage"]
    extras = dict(
        cases=n("cases"), repairs=n("repairs"),
        variants={k: v for k, v in agg.counts.items() if k.startswith("variant_")},
        extra_losses={k: v for k, v in agg.counts.items() if k.startswith("extra_")},
        tables_at_repair=n("tables_at_repair"), logs_at_repair=n("logs_at_repair"),
        wal_records_converted=n("wal_records_converted"), disk_entries_decoded_independently=n("disk_entries_decoded"),
        keys_checked=n("keys_checked"), gets=n("gets"), scans=n("scans"), phase_checks=n("phase_checks"),
        followups=n("followups"), followup_writes=n("followup_writes"), new_files_checked=n("new_files_checked"),
        cases_with_a_key_in_several_tables=n("cases_multi_table_key"), cases_with_live_wal=n("cases_wal_nonempty"),
        cases_where_file_numbers_contradict_sequence_order=n("cases_misordered"),
        cases_with_known_finding_shape_observed=n("cases_f4_observed"),
        cases_with_14_or_more_mutually_overlapping_tables_at_repair=n("cases_with_many_pinned_tables_before_close"),
        templates=dict(f4=n("template_f4"), tombstone=n("template_tomb"), snapshot_pinned=n("template_snap")))
    return runner.finish(
        "C19", "exploration", ctx.tier, ctx.seed, ctx.t0, agg,
        rule="histmon-style histories (all comparators, manual per-level compactions so that file numbering does not "
             "follow data age, snapshot-pinned versions, tombstones, live WAL or flushed) -> one of 7 metadata-loss "
             "variants (+ optional loss/destruction of one data file) -> ldb_repair -> ldb_open; expectation = newest "
             "version per key by sequence number decoded independently from the surviving files; gets, forward/backward "
             "scans, follow-up writes, reopen, file/sequence numbers; distinct = (variant, layout before repair, "
             "misordered?, wal?) states",
        evaluations=n("cases"), distinct_nontrivial=agg.d("c19_state"), extras=extras,
        floors=dict(cases=(n("cases"), 100), misordered=(n("cases_misordered"), 10),
                    multi_table_and_wal=(n("cases_multi_table_and_wal"), 10), followups=(n("followups"), 50),
                    many_tables=(n("cases_with_many_pinned_tables_before_close"), 8)),
        assumptions=["expected contents are derived with harness/refcodec.c from the files that survive",
                     "repair is given the same comparator/options the database was created with"])



# ---------------------------------------------------------------------------
# C20: lifecycle

HARNESSES["lifemon"] = (["lifemon.c", "model.c", "dbh.c", "vh.c", "iomon.c"], build.WRAP_IO)
HARNESS_FLAVOURS["lifemon"] = ("rel", "asan")


def life_jobs(ctx, flavour, mode, first, count, shards):
    jobs = []
    per = max(1, count // shards)
    for k in range(shards):
        d = os.path.join(ctx.scratch, "life-%s-%s-%d" % (flavour, mode, first + k * per))
        os.makedirs(d, exist_ok=True)
        jobs.append(hjob("lifemon", flavour, ["--seed", ctx.seed, "--mode", mode, "--first", first + k * per, "--count", per,
                                               "--dir", d], "%s/%s/%d" % (flavour, mode, k), timeout=3000))
    return jobs


@register("C20")
def c20(ctx):
    """Lifecycle operations are exclusive, complete and non-destructive (lock / backup / destroy / comparator / concurrent backup)."""
    if ctx.replay:
        return do_replay(ctx)
    J = lambda *a: life_jobs(ctx, *a)
    if ctx.quick:
        jobs = (J("rel", "lock", 0, 320, 8) + J("rel", "backup", 0, 192, 8) + J("rel", "conc", 0, 128, 8) +
                J("rel", "destroy", 0, 400, 2) + J("rel", "cmp", 0, 360, 2) +
                J("asan", "lock", 5000, 16, 2) + J("asan", "backup", 5000, 8, 2) + J("asan", "destroy", 5000, 40, 1))
    else:
        jobs = (J("rel", "lock", 0, 6400, 16) + J("rel", "backup", 0, 3200, 32) + J("rel", "conc", 0, 2560, 32) +
                J("rel", "destroy", 0, 8000, 8) + J("rel", "cmp", 0, 3600, 8) +
                J("asan", "lock", 50000, 1600, 16) + J("asan", "backup", 50000, 480, 16) + J("asan", "conc", 50000, 320, 16) +
                J("asan", "destroy", 50000, 2000, 4) + J("asan", "cmp", 50000, 720, 4))
    agg = Agg().add(runner.run_jobs(jobs))
    n = agg.n
    pick = lambda prefix: {k[len(prefix):]: v for k, v in agg.counts.items() if k.startswith(prefix)}
    extras = dict(cases=n("cases"), steps=n("steps"), opens=n("opens"), keys_compared=n("keys_compared"),
                  refused_second_opens=pick("refused_second_open_"), failed_opens=pick("failed_open_"),
                  forked_child_attempts=n("forked_child_attempts"),
                  forked_child_watchdog_expired_inconclusive=n("forked_child_watchdog_expired"),
                  copies_written_to_for_independence=n("copies_written_to_for_independence"),
                  opens_after_failed_open=n("opens_after_failed_open"),
                  refused_copy_of_open_db=n("refused_copy_of_open_db"), refused_destroy_of_open_db=n("refused_destroy_of_open_db"),
                  backups=n("backups"), backups_by_state=pick("backups_state_"),
                  backups_with_memtable_and_several_levels=n("backups_mem_and_multilevel"),
                  backups_with_background_thread_parked_in_manifest_update=n("backups_with_background_thread_parked_in_manifest_update"),
                  failed_backups=pick("failed_backups_"), cross_write_checks=n("cross_write_checks"),
                  foreign_entries_checked=n("foreign_entries_checked"), owned_entries_checked=n("owned_entries_checked"),
                  comparator_pairs=n("comparator_pairs"), concurrent_writer_prefixes_checked=n("writer_prefixes_checked"),
                  prefixes_with_in_flight_batches=n("prefixes_with_in_flight_batches"))
    return runner.finish(
        "C20", "exploration", ctx.tier, ctx.seed, ctx.t0, agg,
        rule="lock: random open/close/second-open (same path, relative, decorated, symlink, forked child, another process)/"
             "failed-open (wrong comparator, error_if_exists, missing, bad CURRENT, injected I/O error)/copy/destroy sequences; "
             "backup: histories with backups in {memtable-only, imm pending, multi-level, during compaction (gated)} states, "
             "copy == model at the call, cross-writes, injected failures leave no partial target; destroy: foreign files "
             "byte-identical; cmp: every comparator pair refused without modifying files; conc: backups concurrent with 2-4 "
             "writers equal a per-writer batch prefix inside the real-time window; distinct = (mode, db state class, operation)",
        evaluations=n("cases"), distinct_nontrivial=agg.d("c20_state"), extras=extras,
        floors=dict(cases=(n("cases"), 500), backups=(n("backups"), 200),
                    inflight=(n("prefixes_with_in_flight_batches"), 1), mem_multi=(n("backups_mem_and_multilevel"), 1)),
        assumptions=["ldb_close concurrent with other calls on the handle is outside the handle contract and not driven"])


# ---------------------------------------------------------------------------
# C16: table format (fmtmon_table)

HARNESSES["fmtmon_table"] = (["fmtmon_table.c", "vh.c", "refcodec.c", "model.c"], ())
HARNESS_FLAVOURS["fmtmon_table"] = ("rel", "asan")


def shard_jobs(ctx, harness_name, flavour, mode, first, count, shards, extra=(), tag=None):
    jobs = []
    per = max(1, count // shards)
    for k in range(shards):
        d = os.path.join(ctx.scratch, "%s-%s-%s-%d" % (harness_name, flavour, mode, first + k * per))
        os.makedirs(d, exist_ok=True)
        n = per if k < shards - 1 else count - per * (shards - 1)
        jobs.append(hjob(harness_name, flavour,
                         ["--seed", ctx.seed, "--mode", mode, "--first", first + k * per, "--count", n, "--dir", d] + list(extra),
                         "%s/%s/%s/%d" % (tag or harness_name, flavour, mode, k), timeout=3000))
    return jobs


@register("C16")
def c16(ctx):
    """Table files round-trip under every option and follow the standard format (real builder/reader vs independent reader)."""
    if ctx.replay:
        return do_replay(ctx)
    J = lambda *a, **k: shard_jobs(ctx, "fmtmon_table", *a, **k)
    if ctx.quick:
        jobs = (J("rel", "table", 0, 3456, 16) + J("asan", "table", 4000, 96, 4) + J("rel", "snappy", 0, 1200, 6) +
                J("asan", "snappy", 4000, 240, 2) + J("rel", "sep", 0, 100000, 1) + J("asan", "sep", 0, 40000, 1))
    else:
        jobs = (J("rel", "table", 0, 69120, 32) + J("rel", "table", 200000, 17280, 32, ["--big", 1]) +
                J("asan", "table", 400000, 5184, 32) + J("rel", "snappy", 0, 48000, 16) + J("asan", "snappy", 100000, 9600, 16) +
                J("rel", "sep", 0, 2000000, 2) + J("asan", "sep", 0, 400000, 2))
    agg = Agg().add(runner.run_jobs(jobs))
    c = agg.counts
    extras = {k: v for k, v in c.items() if k.startswith("c16_")}
    evaluations = sum(v for k, v in c.items() if k in ("c16_tables", "c16_snappy_cases", "c16_sep_pairs", "c16_cases_table",
                                                       "c16_cases_snappy", "c16_cases_sep")) or sum(
        v for k, v in c.items() if k.startswith("c16_cases"))
    if not evaluations:
        evaluations = agg.n("c16_tables_built") + agg.n("c16_snappy_buffers") + agg.n("c16_sep_pairs")
    return runner.finish(
        "C16", "exploration", ctx.tier, ctx.seed, ctx.t0, agg,
        rule="generated sorted entry sets (bytewise / internal-over-bytewise / internal-over-reverse key domains; keys with "
             "shared prefixes, 0xFF/0x00 runs, empty key; values 0 B..1 MiB compressible and not) x all 576 option tuples "
             "(block size x restart interval x compression x filter bits x cache x mmap): real builder -> real reader "
             "(scans both ways, seeks to present/between/before/after keys, internal_get, filters) and the independent table "
             "reader on the bytes (entries, CRCs, separators, restart arrays, footer, filter base); Snappy real<->reference "
             "in both directions incl. element kinds lcdb never emits; separator/successor contract exhaustively on "
             "strings of length <= 3 over {00,01,7f,80,fe,ff}; distinct = option tuple x key kind x compression mix shapes",
        evaluations=max(1, evaluations), distinct_nontrivial=max(agg.d("c16_shape_nontrivial"), agg.d("c16_shape")),
        extras=extras,
        floors=dict(shapes=(agg.d("c16_shape"), 500)),
        assumptions=["harness/refcodec.c (no lcdb headers) is a correct reader of the LevelDB table and Snappy formats"])


# ---------------------------------------------------------------------------
# C17: version edits / MANIFEST (fmtmon_edit) + CURRENT switch window (crashmon, tag C17)

HARNESSES["fmtmon_edit"] = (["fmtmon_edit.c", "vh.c", "dbh.c", "model.c", "refcodec.c"], ())
HARNESS_FLAVOURS["fmtmon_edit"] = ("rel", "asan")


@register("C17")
def c17(ctx):
    """Version metadata encoded exactly and switched atomically (edit/varint codecs vs reference, MANIFEST replay, crash window)."""
    if ctx.replay:
        return do_replay(ctx)
    J = lambda *a, **k: shard_jobs(ctx, "fmtmon_edit", *a, **k)
    if ctx.quick:
        jobs = (J("rel", "edit", 0, 10240, 4) + J("asan", "edit", 50000, 256, 2) + J("rel", "varintq", 0, 1024, 2) +
                J("rel", "replay", 0, 240, 10) + J("asan", "replay", 5000, 16, 2) +
                crash_jobs(ctx, "c05", 6, 50, 0, 1, 0, first=700))
    else:
        jobs = (J("rel", "edit", 0, 163840, 16) + J("asan", "edit", 500000, 2400, 16) + J("rel", "varint", 0, 65536, 32) +
                J("asan", "varintq", 0, 1024, 4) + J("rel", "replay", 0, 4800, 32) + J("asan", "replay", 50000, 320, 16) +
                crash_jobs(ctx, "c05", 24, 150, 0, 2, 10, first=700))
    agg = Agg().add(runner.run_jobs(jobs))
    c = agg.counts
    extras = {k: v for k, v in c.items() if k.startswith("c17_")}
    extras.update(crash_images_with_current_checked=agg.n("current_checked"),
                  manifests_replayed_independently_in_crash_images=agg.n("manifests_replayed_independently"),
                  crash_images_with_dbtmp_present=agg.n("images_with_dbtmp"),
                  crash_images_with_torn_manifest_tail=agg.n("images_with_torn_manifest_tail"),
                  all_2_32_varint32_values=(not ctx.quick))
    evaluations = agg.n("c17_edits") + agg.n("c17_varint32_chunks") + agg.n("c17_manifests_replayed") + agg.n("current_checked")
    distinct = agg.d("c17_shape") + agg.d("c17_manifest")
    return runner.finish(
        "C17", "exploration", ctx.tier, ctx.seed, ctx.t0, agg,
        rule="edits with every field present/absent (all 256 masks x 4 size classes up to 5000+5000 files; values at 2^7k "
             "boundaries and 2^64-1; levels 0..6; arbitrary internal keys): real export/import vs independent decoder and "
             "independent encoder, malformed variants rejected consistently; varint32 (stratified chunks in quick, ALL 2^32 "
             "values in thorough) and varint64 boundaries vs reference; MANIFEST of real histories replayed by the "
             "independent decoder at every quiescent point/reopen == reported layout and counters; every crash image "
             "(all kinds) of workloads with MANIFEST rollovers: CURRENT names a MANIFEST the independent decoder replays "
             "completely and whose tables exist; distinct = (field mask, size class) + (layout, edit-count class)",
        evaluations=max(1, evaluations), distinct_nontrivial=distinct, extras=extras,
        exhaustive=False,
        floors=dict(edits=(agg.n("c17_edits"), 2000), manifests=(agg.n("c17_manifests_replayed"), 1000),
                    current=(agg.n("current_checked"), 1000), dbtmp=(agg.n("images_with_dbtmp"), 5)),
        assumptions=["harness/refcodec.c implements the VersionEdit tag layout from the format description",
                     "crash model of C02 for the CURRENT switch window"])


# ---------------------------------------------------------------------------
# C18: decoders total and memory safe (fuzzmon under ASan+UBSan)

HARNESSES["fuzzmon"] = (["fuzzmon.c", "vh.c", "refcodec.c"], ())
HARNESS_FLAVOURS["fuzzmon"] = ("asan", "rel")


@register("C18")
def c18(ctx):
    """Decoders are total and memory-safe on arbitrary bytes (structure-aware hostile inputs under ASan+UBSan)."""
    if ctx.replay:
        return do_replay(ctx)
    J = lambda *a, **k: shard_jobs(ctx, "fuzzmon", *a, **k)
    if ctx.quick:
        jobs = J("asan", "direct", 0, 240000, 10) + J("asan", "db", 0, 2400, 6) + J("rel", "direct", 1000000, 100000, 1)
    else:
        jobs = (J("asan", "direct", 0, 3200000, 64) + J("asan", "db", 0, 19200, 64) +
                J("rel", "direct", 100000000, 1600000, 8) + J("rel", "db", 1000000, 12800, 8))
    agg = Agg().add(runner.run_jobs(jobs))
    c = agg.counts
    extras = dict(cases=agg.n("cases"), cases_that_entered_the_decoder_proper=agg.n("entered"),
                  per_target_cases={k[6:]: v for k, v in c.items() if k.startswith("cases.")},
                  per_target_entered={k[8:]: v for k, v in c.items() if k.startswith("entered.")},
                  input_classes={k[6:]: v for k, v in c.items() if k.startswith("class.")},
                  block_entries_parsed=agg.n("block_entries_parsed"), table_entries_parsed=agg.n("table_entries_parsed"),
                  log_records_read=agg.n("log_records_read"), log_drops_reported=agg.n("log_drops_reported"),
                  db_open_ok=agg.n("db_open_ok"), db_open_fail=agg.n("db_open_fail"), db_repair_ok=agg.n("db_repair_ok"),
                  db_reopen_after_repair_ok=agg.n("db_reopen_after_repair_ok"), db_compactions=agg.n("db_compacts"),
                  slow_cases=agg.n("slow_cases"), witnesses=agg.n("witnesses"))
    return runner.finish(
        "C18", "exploration", ctx.tier, ctx.seed, ctx.t0, agg,
        rule="per target (block+iterator, footer, handle, read_block, filter, snappy, version edit, write batch, log reader, "
             "parsed keys, file names, varint/slice slurps, dumpfile, table open/get, whole database open/get/scan/compact/"
             "repair/dump): random bytes, structure-aware mutations of valid artefacts with CRCs re-sealed (length fields, "
             "varints, restart arrays, handles, counts set to boundary values) and splices of valid fragments; oracle = "
             "ASan/UBSan report, fatal signal, allocation bomb, CPU/wall guard; non-trivial = the input passed the outer "
             "integrity gate and entered the decoder proper; distinct = (target, mutated field, boundary class) triples",
        evaluations=agg.n("cases"), distinct_nontrivial=agg.d("c18_case"), extras=extras,
        floors=dict(cases=(agg.n("cases"), 50000), entered=(agg.n("entered"), 20000), triples=(agg.d("c18_case"), 500),
                    db_open=(agg.n("db_open_ok"), 300)),
        assumptions=["red-zone sanitizers do not see intra-object or far out-of-bounds accesses landing in live memory",
                     "NDEBUG is kept: debug-only asserts are not counted as aborts of the shipped library"])

#!/usr/bin/env python3
"""Run checks against a seeded change of lcdb in a scratch copy of /repo.

  seedrun.py --patch <patch.diff> --props C01,C07 [--tier quick] [--seed 1] [--keep]

The scratch copy (git archive of /repo HEAD + the patch) lives under /tmp and is
removed afterwards together with its build output.  Nothing in /repo is touched,
so long-running checks and other work on the unchanged tree are not disturbed.
Prints one JSON line per property: exit code, violation keys, wall time.
"""
import argparse
import json
import os
import re
import shutil
import subprocess
import sys
import time

VERIF = os.path.dirname(os.path.dirname(os.path.abspath(__file__)))


def main():
    ap = argparse.ArgumentParser()
    ap.add_argument("--patch", required=True)
    ap.add_argument("--props", required=True)
    ap.add_argument("--tier", default="quick")
    ap.add_argument("--seed", default="1")
    ap.add_argument("--keep", action="store_true")
    ap.add_argument("--repo", default="/repo")
    args = ap.parse_args()
    d = "/tmp/seedrun-%d" % os.getpid()
    shutil.rmtree(d, ignore_errors=True)
    os.makedirs(d)
    try:
        subprocess.run("git -C %s archive HEAD | tar -x -C %s" % (args.repo, d), shell=True, check=True)
        r = subprocess.run(["patch", "-p1", "-i", os.path.abspath(args.patch)], cwd=d, stdout=subprocess.PIPE,
                           stderr=subprocess.STDOUT)
        if r.returncode != 0:
            print(json.dumps(dict(error="patch does not apply", out=r.stdout.decode()[-800:])))
            return 2
        env = dict(os.environ)
        env.update(VERIF_REPO=d, VERIF_BUILD=os.path.join(d, ".vbuild"), VERIF_SEED=str(args.seed),
                   VERIF_EVIDENCE_DIR=os.path.join(d, ".evidence"))
        rc_all = 0
        for p in args.props.split(","):
            t0 = time.time()
            r = subprocess.run([sys.executable, os.path.join(VERIF, "check.py"), p, "--tier", args.tier], env=env,
                               stdout=subprocess.PIPE, stderr=subprocess.PIPE, cwd=VERIF)
            err = r.stderr.decode(errors="replace")
            out = r.stdout.decode(errors="replace")
            keys = re.findall(r"\[%s\] violation key=(\S+) \((\d+) occurrence" % p, err)
            known = re.findall(r"KNOWN-FINDING: .*\[([^\]]+)\]", out)
            first = ""
            m = re.search(r"\[%s\] violation key=\S+ \(\d+ occurrence\(s\)\)\n\s+(.*)" % p, err)
            if m:
                first = m.group(1)[:400]
            print(json.dumps(dict(property=p, exit=r.returncode, violation_keys=dict((k, int(n)) for k, n in keys),
                                  known_findings=known, wall_s=round(time.time() - t0, 1), first_message=first,
                                  tail=out.strip().splitlines()[-1] if out.strip() else "")))
            sys.stdout.flush()
            rc_all |= r.returncode
        return 0
    finally:
        if not args.keep:
            shutil.rmtree(d, ignore_errors=True)


if __name__ == "__main__":
    sys.exit(main())

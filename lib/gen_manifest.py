#!/usr/bin/env python3
"""Regenerates /verif/MANIFEST.json from the registry below (keeps it valid at all times)."""
import json
import os
import subprocess
import sys

HERE = os.path.dirname(os.path.abspath(__file__))
VERIF = os.path.dirname(HERE)
sys.path.insert(0, HERE)

CHECKS = {
    "C01": dict(
        cat="exploration", engine="histmon", design="3/C01",
        technique="runtime monitoring: reference-model oracle over random histories of the real library (+ASan/UBSan pass)",
        text="Every get/has of random operation histories (incl. flush, per-level manual compaction, reopen with "
             "changed options, 3 layout templates such as a user key straddling two files) is compared with a "
             "versioned sorted-map model; a shadow reader thread checks reads while compactions run. Held = no "
             "divergence on the histories/configurations explored (counts in evidence); sampling, not proof.",
        note="Trusts harness/model.c as the sorted-map specification; background scheduling is whatever the OS gives."),
    "C02": dict(
        cat="fault_enumeration", engine="crashmon", design="3/C02",
        technique="runtime monitoring: recorded libc I/O trace -> enumerated crash images -> real recovery, oracle over surviving batch markers",
        text="A write workload runs on the real library under the I/O interposer; for every state-changing event of the "
             "trace and every image kind the crash model allows (max, min, dir-ahead, data-ahead, torn cuts, random) the "
             "image is materialised and the real ldb_open recovers it; every sync-acknowledged batch and every batch whose "
             "log was unlinked must be present. Exhaustive over event boundaries of each recorded trace, sampled over traces.",
        note="Crash model exactly as stated in C02; single foreground writer; tmpfs holds the images."),
    "C03": dict(
        cat="fault_enumeration", engine="crashmon", design="3/C03",
        technique="runtime monitoring: byte-exact kill images at every syscall boundary, nested and chained, recovered by the real code",
        text="At every state-changing event the byte-exact image is recovered by the real code: the surviving set must be "
             "exactly the acknowledged batches (plus possibly the one in flight) and the contents their fold; sampled kill "
             "points are nested (kill inside recovery) or chained (recover, write more, kill again, 2-3 links).",
        note="Kill points are system-call boundaries of the recorded trace; background/foreground interleaving as recorded."),
    "C04": dict(
        cat="fault_enumeration", engine="crashmon+concmon", design="3/C04",
        technique="runtime monitoring: crash-image enumeration with marker oracle + snapshot/iterator views checked under a serialising scheduler",
        text="Crash half: large batches spanning several log blocks, every crash point and image kind, recovered contents "
             "must be a fold of whole batches. Concurrent half: under a seeded serialising scheduler with yield points "
             "between the memtable inserts of one batch, every snapshot/iterator view must show each writer's keys after a "
             "whole number of its batches.",
        note="Crash model of C02; schedules sampled, not enumerated."),
    "C05": dict(
        cat="fault_enumeration", engine="crashmon", design="3/C05",
        technique="runtime monitoring: real recovery of every enumerated crash image + second open + follow-up workload + nested crashes",
        text="Every crash image (all kinds) must open without error under independently drawn paranoid_checks/reuse_logs; "
             "recovered batches form a prefix of every log segment, scan == fold, a second open changes nothing, no "
             "orphans remain, and a follow-up workload persists across a further reopen.",
        note="Same crash model as C02; follow-up on a 1-in-3 sample of images plus all non-write crash points."),
    "C06": dict(
        cat="exploration", engine="histmon", design="3/C06",
        technique="runtime monitoring: frozen-model oracle per snapshot, re-validated after every structural change",
        text="0..12 live snapshots per history; after each flush/compaction/periodically every live snapshot is read "
             "completely (all keys, forward and backward scan) and compared with the model frozen at its version.",
        note="Freeze point = model version when ldb_snapshot returned (single writer)."),
    "C07": dict(
        cat="exploration", engine="histmon", design="3/C07",
        technique="runtime monitoring: model cursor compared after every iterator call (+ASan/UBSan pass)",
        text="Live iterators are driven by random positioning/stepping sequences with direction changes and compared "
             "(valid/key/value/status) with a model cursor after every call, while writes/compactions/file deletion proceed.",
        note="Iterator view = model version at creation or of its snapshot."),
    "C08": dict(
        cat="exploration", engine="concmon+vsched", design="3/C08",
        technique="runtime monitoring: client-boundary histories under a seeded serialising scheduler, offline linearizability checkers",
        text="Histories of 2..8 threads recorded at the client boundary under a seeded serialising scheduler (random, PCT, "
             "background starved/greedy; yield points at locks, condvars, libc I/O and inside batch inserts) and on native "
             "threads with delays; checked by SWMR-register, zone (shared keys), consistent-cut and final-state checkers. "
             "Tiny scenarios are enumerated systematically: every schedule with at most one (sharded part: two) deviations "
             "from the default non-preemptive schedule.",
        note="Realistic scenarios are sampled, tiny ones enumerated within a deviation bound; scheduler executes under sequential consistency; logical clock = scheduler steps."),
    "C09": dict(
        cat="exploration", engine="concmon+vsched", design="3/C09",
        technique="runtime monitoring: logical deadlock / lost wake-up detector in a serialising scheduler that models mutexes and condition variables",
        text="Stall scenarios run under every scheduler strategy; because mutexes and condition variables are modelled the "
             "scheduler knows when no thread can run while some are unfinished (deadlock / lost wake-up) and when a call "
             "exceeds the step bound; spurious wake-ups are injected; tiny scenarios are additionally enumerated over every "
             "schedule within one/two deviations from the default schedule.",
        note="Bounded liveness (step bound); close concurrent with other calls on the handle is outside the contract."),
    "C10": dict(
        cat="exploration", engine="racemon", design="3/C10",
        technique="sanitizers: ThreadSanitizer (report blocks counted from logs) and ASan/UBSan on native multi-thread stress with injected delays",
        text="6..8 native threads drive every public entry point of one handle (plus a second handle sharing the block "
             "cache) with minimum table cache and a small write buffer; seed-driven delays at libc I/O calls and inside "
             "skiplist inserts; ThreadSanitizer and ASan/UBSan are the oracle; the monitor reports which API pairs overlapped.",
        note="Only executed access pairs are judged; non-default ports (no atomics, Windows) are outside this build."),
    "C15": dict(
        cat="exploration", engine="fmtmon_log+refcodec", design="3/C15",
        technique="runtime monitoring: real log writer/reader cross-checked byte-for-byte against an independently written codec; bitwise CRC-32C reference",
        text="Real writer bytes == independent encoder bytes for a boundary grid of (initial length, record length) and random "
             "mixes; real reader == independent decoder on cuts at (every) byte and on bit/byte/burst/sector alterations and on "
             "type bytes replaced together with a matching CRC (no alien record, drop reported, resume at next block); "
             "CRC-32C vs bitwise reference on both code paths.",
        note="Trusts harness/refcodec.c as the format definition; legal-cut exemption as stated in DESIGN section 6."),
    "C11": dict(
        cat="fault_enumeration", engine="corruptmon", design="3/C11",
        technique="runtime monitoring: enumerated single-byte/bit/truncation/sector corruptions of generated database files, answers compared with the model (+ASan/UBSan pass)",
        text="Every byte of index/filter/metaindex/footer/trailers and a stride over data bytes (thorough: every byte of one database, stride 6 over three more) of "
             "every table, WAL, MANIFEST and CURRENT of generated databases gets each bit flip, 00, FF, truncation and a "
             "zeroed sector; with paranoid checks + checksum verification every get/scan must be correct or report an "
             "error; WAL/MANIFEST damage may drop whole batches only.",
        note="One alteration per case; small generated databases."),
    "C12": dict(
        cat="fault_enumeration", engine="faultmon+iomon", design="3/C12",
        technique="runtime monitoring: fault injection at the libc boundary, statuses + post-fault recovery checked against the acknowledged history (+ASan/UBSan pass)",
        text="One fault rule per run: (libc call class, file class, n-th occurrence) x {one-shot, persistent} x errno x "
             "{clean, short write}, enumerated from a reference run; the process must not crash or hang (a logical stuck-call watcher reports a call that "
             "does not return while the library keeps retrying, or while every thread is blocked), reads stay correct, and after the fault clears both close+reopen and a kill image hold every batch that returned OK.",
        note="Faults at the libc boundary of this build; one rule per run; single writer."),
    "C13": dict(
        cat="exploration", engine="histmon+iomon", design="3/C13",
        technique="runtime monitoring: libc-boundary I/O trace monitors + exact directory listing at quiescent points",
        text="unlink/create events recorded at the libc boundary are checked against iterator pin sets, open output "
             "descriptors and file-number history; at quiescent points the directory must be exactly the live set.",
        note="Pin set of an iterator taken from leveldb.sstables when unchanged across its creation."),
    "C14": dict(
        cat="exploration", engine="histmon+refcodec", design="3/C14",
        technique="runtime monitoring: structural invariants checked at quiescent points with an independent table decoder",
        text="At quiescent points after structural changes every table listed by leveldb.sstables is decoded by an "
             "independently written reader and checked for order, bounds, size, level disjointness, recency order and "
             "reopen equality.",
        note="Trusts harness/refcodec.c (no lcdb headers) as a reader of the LevelDB table format."),
}

TITLES = {}
with open(os.path.join(VERIF, "properties.jsonl")) as f:
    for line in f:
        if line.strip():
            p = json.loads(line)
            TITLES[p["id"]] = p["title"]

CHECKS["C19"] = dict(
    cat="exploration", engine="repairmon+refcodec", design="3/C19",
    technique="runtime monitoring: model/independent-decoder oracle over generated histories followed by metadata loss, ldb_repair and ldb_open (+ASan/UBSan pass)",
    text="Histories that make file numbering contradict data age (incl. 14-22 mutually overlapping tables kept on disk by "
         "pinned iterators) are closed, their MANIFEST/CURRENT lost or damaged in 7 "
         "ways (optionally one data file too), repaired and reopened; every key's lookup, both scan directions, follow-up "
         "writes, a reopen and the file/sequence counters are checked against the newest-by-sequence contents decoded "
         "independently from the surviving files.",
    note="Expectation computed by harness/refcodec.c; same options passed to ldb_repair as at creation.")

CHECKS["C20"] = dict(
    cat="exploration", engine="lifemon+iomon", design="3/C20",
    technique="runtime monitoring: generated lifecycle sequences with model/byte-level oracles (locks incl. another process, backups in gated states, destroy, comparator mismatch, concurrent backup) (+ASan pass)",
    text="Random open/close/second-open/failed-open/copy/destroy sequences (aliases via relative paths, symlinks, a forked "
         "child and an unrelated process), backups taken in memtable-only / immutable-pending / multi-level / mid-compaction "
         "(gated) states and concurrently with writers, destroy on directories seeded with foreign files, every comparator "
         "pair; oracles: return codes, copy == model at the call (whole batches inside the real-time window), byte-identical "
         "foreign/data files.",
    note="close() concurrent with other calls on the same handle is outside the contract and not driven.")

CHECKS["C16"] = dict(
    cat="exploration", engine="fmtmon_table+refcodec", design="3/C16",
    technique="runtime monitoring: real table builder/reader checked against the input set and an independently written table/Snappy/bloom reader (+ASan/UBSan pass)",
    text="Tables are built by the real builder for generated entry sets under all 576 option tuples and three key domains; "
         "the real reader (half of the filtered tables through a bloom policy with another bits_per_key than the "
         "builder's) must return exactly the input (scans, seeks, gets, filters) and the independent reader must "
         "decode the same entries from the bytes (CRCs over stored bytes, restart arrays, separators, footer, filter "
         "base); Snappy is cross-checked in both directions; the separator/successor contract is checked exhaustively on "
         "short strings.",
    note="Trusts harness/refcodec.c as the format definition.")
CHECKS["C17"] = dict(
    cat="exploration", engine="fmtmon_edit+refcodec+crashmon", design="3/C17",
    technique="runtime monitoring: edit/varint codecs vs independent codec, MANIFEST of real histories replayed independently, crash images of CURRENT switches",
    text="Every field mask and boundary value of version edits round-trips through the real codec and an independent "
         "decoder/encoder; all 2^32 varint32 values in thorough; at every quiescent point of real histories the MANIFEST "
         "replayed by the independent decoder equals the reported layout and counters (incl. long-key histories whose reused "
         "MANIFEST grows across 32 KiB block boundaries); in every crash image CURRENT names "
         "a MANIFEST that replays completely and whose tables exist.",
    note="Trusts harness/refcodec.c; crash model of C02 for the switch window.")
CHECKS["C18"] = dict(
    cat="exploration", engine="fuzzmon", design="3/C18",
    technique="sanitizers: ASan+UBSan (fatal reports), signal and CPU/allocation guards over structure-aware hostile inputs for every decoder and whole-database operations",
    text="Every decoder entry point and whole-database operations (open, get, scan, compact, repair, dump) on mutated "
         "directories are fed random bytes, structure-aware mutations with re-sealed CRCs and splices; each batch runs in a "
         "forked child, a death is attributed to the recorded case and reported with the first sanitizer frame.",
    note="Red-zone sanitizers miss intra-object / far out-of-bounds accesses; NDEBUG kept on purpose.")

NOT_YET = "check under construction in this session (see DESIGN.md section 3); not claimed until its monitor is committed"


def main():
    hooks_commits = []
    try:
        out = subprocess.run(["git", "-C", "/repo", "log", "--format=%H %s"], stdout=subprocess.PIPE).stdout.decode()
        for l in out.splitlines():
            h, s = l.split(" ", 1)
            if s.startswith("verif:"):
                hooks_commits.append(h)
    except Exception:
        pass
    checks = []
    for pid in sorted(CHECKS):
        c = CHECKS[pid]
        checks.append(dict(
            property_id=pid,
            quick_cmd="python3 check.py %s --tier quick" % pid,
            thorough_cmd="python3 check.py %s --tier thorough" % pid,
            evidence_file="evidence/%s.json" % pid,
            replay_cmd_template="python3 check.py %s --replay {path}" % pid,
            engine=c["engine"],
            level_claimed=dict(category=c["cat"], text=c["text"], design_ref="DESIGN.md section " + c["design"]),
            level_note=c["note"],
            technique=c["technique"]))
    na = [dict(property_id=pid, reason=NOT_YET) for pid in sorted(TITLES) if pid not in CHECKS]
    man = dict(
        version=1,
        setup_cmd="python3 check.py --setup",
        hooks=dict(guard="LDB_VERIF",
                   enable="checks build liblcdb.a out of tree with -DLDB_VERIF in CMAKE_C_FLAGS (lib/build.py)",
                   baseline_off_cmd="cmake --build /repo/_build -j16 && ctest --test-dir /repo/_build -j8 --timeout 900",
                   source_commits=hooks_commits, add_only=True),
        engines=[
            dict(name="iomon", path="harness/iomon.c", serves_properties=["C02", "C03", "C04", "C05", "C12", "C13", "C17", "C20"],
                 kind_free_text="libc-boundary interposer (-Wl,--wrap): I/O trace, fault injection, gates, delays"),
            dict(name="histmon", path="harness/histmon.c", serves_properties=["C01", "C06", "C07", "C13", "C14"],
                 kind_free_text="reference-model monitor over random histories of the real library"),
            dict(name="refcodec", path="harness/refcodec.c", serves_properties=["C14", "C15", "C16", "C17", "C19"],
                 kind_free_text="independent codecs (WAL, table, snappy, bloom, version edit) used as oracles"),
        ],
        checks=checks,
        not_applicable=na,
        notes="Technique family: runtime monitoring and sanitizers. All checks rebuild liblcdb.a and the monitors from "
              "/repo's working tree (content-hash cache in .build/). Exit 0 held, 1 violation, 2 inconclusive.")
    with open(os.path.join(VERIF, "MANIFEST.json"), "w") as f:
        json.dump(man, f, indent=1)
        f.write("\n")
    print("MANIFEST.json: %d checks, %d not_applicable" % (len(checks), len(na)))


if __name__ == "__main__":
    main()

#!/usr/bin/env python3
"""Seeded changes (written by fresh sub-agents that saw only a property text): confirm + run the checks + meta.json.

  seedmatrix.py [--confirm] [--run] [--jobs N] [name-substring ...]

--confirm  lib/confirm_seed.sh per seed: the demo exits 0 on a clean copy, non-zero with the patch, the pinned suite
           passes with the patch (t-db alone is re-run up to 3 times when only it fails: load-sensitive flake that
           also occurs on the unchanged tree, DESIGN.md 8.5)
--run      lib/seedrun.py per seed: quick tier of the listed properties against a scratch copy with the patch
Results are merged into seeded/<id>/meta.json (static part from the table below) and seeded/RESULTS.md is rewritten
from all meta.json files.
"""
import json
import os
import re
import subprocess
import sys
import time
from concurrent.futures import ThreadPoolExecutor

VERIF = os.path.dirname(os.path.dirname(os.path.abspath(__file__)))
SEEDED = os.path.join(VERIF, "seeded")

# id -> (property, properties whose quick check is run, what the change needs to manifest, strengthening done for it)
S = {
    "c01-l0-input-expansion-no-rescan": ("C01", "C01,C14",
        "three level-0 files forming an overlap chain J<I<K (K overlaps I, I overlaps J, K does not overlap J) and a level-0 "
        "compaction whose start range lies above J: J (older data) stays in level 0 while I (newer) moves down",
        "histmon template T4 (level-0 chain with a range compaction starting above the lowest file) was added for it"),
    "c01-tombstone-dropped-when-no-grandparents": ("C01", "C01,C06",
        "older value in level >= L+3, nothing in L+1/L+2 over the range, tombstone in level L, compaction L -> L+1", ""),
    "c02-sync-follower-absorbed-into-nonsync-group": ("C02", "C02",
        "group commit: a non-sync writer queued behind a busy leader, a sync writer queued behind it, power failure before the next fsync of that log",
        "(crashmon --writers 3 with mixed sync flags existed before this seed arrived)"),
    "c02-current-tmp-unsynced-dirsync-instead": ("C02", "C02,C05,C17",
        "power failure whose image has the directory operations ahead of file data (rename durable, CURRENT contents cut at last fsync length 0)", ""),
    "c03-manifest-reuse-guard-disabled": ("C03", "C03,C05",
        "reuse_logs=1, a version edit straddling a 32 KiB MANIFEST block (long keys), process killed between the two write(2) calls of the fragments, reopen twice",
        "crashmon long-key workloads (--keypad), detection of multi-block record kill points, per-category chain budgets"),
    "c03-compaction-edit-advances-log-number": ("C03", "C03,C13",
        "memtable switch during the tail of a background compaction, process killed after the compaction's MANIFEST record and before the flush's", ""),
    "c09-no-compaction-scheduled-after-all-reused-open": ("C09", "C09",
        "reuse_logs=1 with MANIFEST and last WAL both reused (no descriptor written at open), >= 12 level-0 files already present, write-only workload: the first writer that fills the memtable waits on the level-0 limit with no background job scheduled", ""),
    "c09-flush-request-absorbed-into-group-never-completed": ("C09", "C09",
        "leader busy in its WAL write, a put queued behind it, a NULL-batch request (manual flush / ldb_compact) queued behind the put: popped with the group but never marked done or signalled", ""),
    "c03-no-flush-when-fragment-ends-on-block-boundary": ("C03", "C03",
        "a non-sync write whose WAL record ends exactly at a 32 KiB block end, process killed before anything else is appended to that log: the record is still in the user-space buffer", ""),
    "c03-recovered-tables-of-nonlast-logs-skip-level0": ("C03", "C03,C05,C14",
        "three logs at recovery (crash with imm pending, crash inside recovery), the two older ones with overlapping keys: their tables both land in level 2 with overlapping ranges", ""),
    "c04-group-commit-publishes-leader-count-only": ("C04", "C04,C08",
        "at least two writers merged into one group: followers are acknowledged but lie above the published sequence; the next write exposes a prefix of the follower batch", ""),
    "c04-zero-block-joins-fragmented-record": ("C04", "C15,C11,C04",
        "a WAL record spanning >= 3 blocks with a zero-filled region at the start of a middle block; paranoid_checks=0",
        "corruptmon now generates a 4-block WAL record in even databases (was 2 blocks): see c11-zero-header-continues-fragmented-record"),
    "c05-recovered-tables-placed-against-stale-version": ("C05", "C05,C03",
        "three log files at recovery (crash during a flush, then the recovery itself killed after creating its log), overlapping keys in the two oldest", ""),
    "c05-manifest-end-computed-after-loop": ("C05", "C05,C03",
        "reuse_logs=1, crash in the middle of a MANIFEST record append, one more edit after recovery, a further open", ""),
    "c06-smallest-snapshot-from-newest": ("C06", "C06",
        "two live snapshots, a key overwritten between them, a compaction over both entries, read through the older snapshot", ""),
    "c06-find-file-by-user-key": ("C06", "C06,C14",
        "several snapshot-pinned versions of one user key split across two files of a level >= 1 (large values), get through a snapshot whose version is in the second file", ""),
    "c06-boundary-files-only-for-automatic-compactions": ("C06", "C06,C01,C14",
        "snapshot-pinned versions of one user key spanning adjacent files of a level >= 1 (large values), manual compaction of that level over a range ending before the shared key: newer versions move down, older stay above", ""),
    "c06-sequence-range-published-before-batch-applied": ("C06", "C08,C04,C06",
        "same mechanism as c08-sequence-published-before-apply, found independently: ldb_snapshot in another thread while the writer has dropped the mutex", ""),
    "c07-backward-scan-keeps-oldest-version": ("C07", "C07",
        "a key overwritten by a plain put with both versions physically present, reached by an iterator moving backwards", ""),
    "c07-seek-lt-no-fallback-to-last": ("C07", "C07",
        "seek_lt with a target above every live key (or inside a tombstoned tail)", ""),
    "c07-hidden-entry-test-by-byte-equality": ("C07", "C07",
        "a comparator with equivalence classes (case-insensitive); a key overwritten or deleted using a different spelling, older version not yet compacted away; forward iteration",
        "model/histmon comparator CMP_NOCASE with per-write spellings was added for it"),
    "c08-sequence-published-before-apply": ("C08", "C08,C04",
        "a second thread takes the mutex while the writing leader is inside write(2)/memtable insert", ""),
    "c08-oversized-writer-skipped-but-acked": ("C08", "C08,C04",
        "three queued writers [leader, B, C] where B pushes the group over the size limit (>128 KiB behind a small leader) and C still fits",
        "concmon big batches (VID_BIG, >128 KiB values) were added for it"),
    "c08-get-samples-has-imm-before-lock": ("C08", "C08,C01",
        "a reader samples has_imm, then blocks on the DB mutex while the writer switches memtables: the get misses the frozen memtable (stale / not-found for an acknowledged write)", ""),
    "c08-deletion-marker-dropped-despite-snapshot": ("C08", "C08,C06,C01",
        "key flushed, snapshot taken by another thread, delete acknowledged, compaction to the base level while the snapshot lives: marker dropped, old value resurrected", ""),
    "c09-manual-compaction-forgotten-on-rearm": ("C09", "C09",
        "manual compaction requested while an automatic background call is in flight and nothing else is pending when it ends", ""),
    "c09-broadcast-becomes-signal": ("C09", "C09",
        "two foreground threads blocked on background work at once (flush waiter + backup / stalled writer / close)", ""),
    "c10-find-last-relaxed-loads": ("C10", "C10",
        "iterator seek-to-last on the live memtable while another thread inserts a key that becomes the new tail", ""),
    "c10-lru-id-without-lock": ("C10", "C10",
        "two threads opening two different tables at once (table-cache misses outside the DB mutex)", ""),
    "c11-data-block-error-lost-in-table-get": ("C11", "C11",
        "a damaged data block reached by a point lookup (verify_checksums): the error is swallowed and the key reported absent / stale", ""),
    "c11-zero-header-continues-fragmented-record": ("C11", "C11,C15",
        "WAL record spanning >= 3 blocks, a zeroed 512-byte sector at a 32 KiB multiple inside it, paranoid_checks=0: fragments around the lost block are glued",
        "corruptmon: 4-block WAL record in even databases (C15 fmtmon_log caught it before that)"),
    "c12-gc-before-background-error-recorded": ("C12", "C12",
        "one-shot write/fsync failure on the MANIFEST while a real table compaction commits its edit", ""),
    "c12-set-current-dirsync-failure-deletes-manifest": ("C12", "C12",
        "one-shot failure of exactly the directory sync after the CURRENT rename", ""),
    "c13-recovery-reserves-only-oldest-log-number": ("C13", "C13,C03",
        "compaction with two open outputs + memtable switch, kill, reopen with reuse_logs=1, kill again: the new log reuses the number of an existing log and truncates it",
        "crashmon post-crash monitor `existing-log-truncated-by-number-reuse` was added for it"),
    "c13-live-file-scan-skips-bottom-level": ("C13", "C13,C01",
        "data in the bottom level (6), reached by per-level manual compactions", ""),
    "c02-torn-manifest-tail-reused-for-append": ("C02", "C02,C05",
        "same mechanism as c05-manifest-end-computed-after-loop, found independently by a second agent: reuse_logs=1, power failure inside a MANIFEST append, restart, more edits appended behind the torn record, restart again", ""),
    "c02-imm-log-collected-by-logfile-number": ("C02", "C02,C03,C13",
        "memtable switch during the tail of a table compaction: its clean-up unlinks the log of the immutable memtable; power failure / kill before that memtable is flushed", ""),
    "c05-replayed-wal-number-not-reserved": ("C05", "C05,C03,C13",
        "reuse_logs=0, crash image whose newest WAL number is well above the MANIFEST's next-file counter (compaction with several outputs allocated + memtable switch): recovery gives the new log a LOWER number, the stale WAL survives and is replayed over newer data after the next reopen", ""),
    "c05-max-sequence-from-last-wal-only": ("C05", "C05,C03",
        "crash image with two WALs where the newer one holds no complete record: last_sequence stays at the MANIFEST's value, recovered entries invisible, new writes numbered below them", ""),
    "c12-short-write-then-enospc-reported-ok": ("C12", "C12",
        "a write() returning a short count followed by ENOSPC on the retry of the same buffer (disk filling up): the put is acknowledged with half a record in the WAL", ""),
    "c12-table-read-error-becomes-notfound": ("C12", "C12",
        "a point lookup of a key that lives in a table while a read-path call fails (EMFILE on open of an uncached table, EIO on a data-block read): NotFound instead of the error", ""),
    "c13-gc-skipped-while-snapshot-outstanding": ("C13", "C13",
        "a snapshot handle alive while flushes/compactions complete: obsolete tables and logs stay on disk", ""),
    "c13-set-current-reports-dirsync-failure-after-rename": ("C13", "C13,C12",
        "same mechanism as c12-set-current-dirsync-failure-deletes-manifest, found independently: the directory sync after the CURRENT rename fails, the error path unlinks the MANIFEST that CURRENT now names", ""),
    "c14-manifest-snapshot-omits-level6": ("C14", "C14,C01,C13",
        "a table in level 6 (manual per-level compactions), then two close/reopen cycles with reuse_logs=0: the MANIFEST snapshot written at reopen 1 omits level 6, reopen 2 shows it empty and deletes the table", ""),
    "c14-recovery-flush-placed-against-stale-version": ("C14", "C05,C03,C14",
        "two or more logs with a common user key replayed in one open (crash with a frozen memtable pending): their tables are placed by overlap checks against a version lacking the earlier log's table (similar to c05-recovered-tables-placed-against-stale-version and c03-recovered-tables-of-nonlast-logs-skip-level0, found independently)", ""),
    "c14-boundary-file-byte-equality": ("C14", "C14,C01",
        "case-insensitive comparator, one user key split over two tables of a level (snapshot-pinned large values) with different spellings at the cut", ""),
    "c15-writer-reopened-in-trailer-skips-padding": ("C15", "C15,C03",
        "reuse_logs=1 and a log whose length modulo 32768 is 32762..32767 at reopen (the writer starts inside a block trailer), then writes and another reopen", ""),
    "c15-type-zero-header-silently-skipped": ("C15", "C15,C11",
        "an alteration that sets exactly the type byte of a record with non-zero length to 0x00: dropped without a report (extends the known zero-header finding to non-zero lengths)", ""),
    "c16-bloom-probe-count-from-reader-policy": ("C16", "C16,C01",
        "tables written with one bloom bits_per_key and read with a larger one (reopen with a changed option; same policy name)",
        "fmtmon_table reads half of the filtered tables through a policy object with a different bits_per_key than the builder's (C01 caught it before through reopen with mutated options)"),
    "c16-block-entry-fast-path-varint-boundary": ("C16", "C16,C01",
        "a block entry whose three header values are each 0 or exactly 128 (e.g. restart entry with a 128-byte key, empty or 128-byte value; user key of 16376 bytes)", ""),
    "c17-file-entry-compare-truncates-64bit-difference": ("C17", "C17",
        "two deleted-file entries of one level whose numbers differ by a multiple of 2^32 (file-number counter past 2^32)",
        "fmtmon_edit generator: deleted-file numbers that alias in the low 32 bits (added before the first run against this change, which then reported it)"),
    "c17-current-installed-before-edit-record": ("C17", "C17,C05,C03",
        "process kill between the CURRENT rename and the append of the edit record (window on every non-reuse open)", ""),
    "c18-block-entry-bounds-32bit-wrap": ("C18", "C18",
        "a block entry whose non_shared + value_length varints wrap 2^32 (block CRC recomputed)", ""),
    "c18-manifest-level-checked-after-signed-conversion": ("C18", "C18,C17",
        "a well-framed MANIFEST record with a level varint in [0x80000000, 0xffffffff]", ""),
    "c19-repair-log-max-sequence-from-batch-start": ("C19", "C19",
        "repair of a database whose newest data is a multi-update batch in the WAL: the recovered last_sequence is the batch's first sequence", ""),
    "c19-level0-lookup-capped-at-13-files": ("C19", "C19",
        ">= 14 surviving tables whose ranges all contain the key, repair, point lookup before the open-time compaction",
        "repairmon phase `many pinned tables` (14-22 flushes each spanning the whole key range, pinned by iterators) was added for it"),
    "c20-backup-does-not-wait-for-compaction-commit": ("C20", "C20",
        "ldb_backup started while a level compaction is inside its MANIFEST commit (mutex released) or while obsolete files are being unlinked", ""),
    "c20-create-dir-idempotent-refused-backup-wipes-target": ("C20", "C20",
        "ldb_backup into a directory that already exists and holds a database (an older backup, or the source itself): still refused, but the error-path cleanup unlinks the database files in the target", ""),
    "c20-copy-hard-links-wal-and-manifest": ("C20", "C20",
        "ldb_copy followed by reuse_logs=1 on whichever side is opened next: source and copy append to shared inodes", ""),
    "c20-destroy-removes-foreign-LOG-dot-files": ("C20", "C20",
        "a foreign file named LOG.<anything> in the database directory, then ldb_destroy / ldb_copy", ""),
    # ---- round 3 (twelve more sub-agents; told which mechanisms rounds 1-2 had used for their property)
    "c01-expanded-inputs-miss-boundary-file": ("C01", "C01,C14,C06",
        "snapshot-pinned versions of one key cut across two files B1|B2 of a level; a compaction that starts from ANOTHER file of the level "
        "whose next-level input stretches the range into B1 but stops short of the shared key: B1 enters through the input-growing step only",
        "histmon template T5 (straddling file reached only through the input-growing step) was added for it"),
    "c04-stale-base-sequence-read-before-writer-queue-wait": ("C04", "C04,C08",
        "two or more threads inside ldb_write at once: a writer that waited in the queue while another leader committed reuses a stale base sequence", ""),
    "c07-live-file-walk-stops-at-version-adding-nothing": ("C07", "C07,C13",
        "iterator A on files below level 0, a compaction replaces them, iterator B pins the then-current version, one more flush: A's files are collected", ""),
    "c10-iter-cleanup-drops-imm-ref-before-mutex": ("C10", "C10",
        "an iterator created while a flush is pending (imm != NULL) destroyed while another thread touches imm->refs under the mutex", ""),
    "c11-l0-compaction-inputs-unverified": ("C11", "C11",
        "damage inside a data block of a level-0 table, then a compaction that takes the table as level-0 input, then a read", ""),
    "c13-trivial-move-pins-input-version": ("C13", "C13",
        "an automatic trivial-move compaction (leaks a version reference), later compactions replace tables that existed then; directory compared with the live set in the same process", ""),
    "c14-level0-input-expansion-without-restart": ("C14", "C14,C01",
        "same change as c01-l0-input-expansion-no-rescan, written independently a fourth time", ""),
    "c15-unknown-type-keeps-fragment-state": ("C15", "C15,C11",
        "a record of >= 3 fragments whose MIDDLE fragment gets an unknown type byte that passes the checksum (checksums off as in ldb_repair, or CRC altered to match)",
        "fmtmon_log alteration kind `type byte replaced with matching CRC` was added for it; on the unchanged tree it exposed defect F12 (fixed, bdca5ff)"),
    "c16-separator-bump-checks-start-length": ("C16", "C16",
        "adjacent keys P c X.. and P (c+1) with a data-block boundary exactly between them, point lookup through the raw bytewise comparator", ""),
    "c17-reused-manifest-writer-starts-at-block-offset-zero": ("C17", "C17,C05,C03",
        "reuse_logs=1, a reopen that keeps a MANIFEST whose size is not a multiple of 32 KiB, enough edits appended to cross the next block boundary, a later open",
        "fmtmon_edit replay cases with 1.5-3 KB keys (reused MANIFESTs grow across block boundaries within a few edits) were added for it"),
    "c18-snappy-copy-offset-off-by-one": ("C18", "C18,C16",
        "a Snappy copy element whose offset is exactly the bytes produced so far plus one", ""),
    "c19-repair-builds-tables-with-user-filter-policy": ("C19", "C19",
        "filter policy set for ldb_repair and the following open, a live log (or rewritten table) at repair time, point lookups", ""),
}


def sh(cmd, **kw):
    return subprocess.run(cmd, shell=isinstance(cmd, str), stdout=subprocess.PIPE, stderr=subprocess.STDOUT, **kw).stdout.decode(errors="replace")


def load_meta(name):
    p = os.path.join(SEEDED, name, "meta.json")
    if os.path.exists(p):
        try:
            return json.load(open(p))
        except ValueError:
            pass
    return {}


def save_meta(name, m):
    prop, props, needs, strengthened = S[name]
    m.update(id=name, property=prop, needs_to_manifest=needs, written_by="fresh sub-agent given only the property text and a scratch worktree",
             files=sorted(f for f in os.listdir(os.path.join(SEEDED, name)) if f != "meta.json"))
    if strengthened:
        m["strengthening"] = strengthened
    with open(os.path.join(SEEDED, name, "meta.json"), "w") as f:
        json.dump(m, f, indent=1, sort_keys=True)
        f.write("\n")


def confirm(name):
    d = os.path.join(SEEDED, name)
    out = sh(["bash", os.path.join(VERIF, "lib", "confirm_seed.sh"), d])
    m = re.search(r"CONFIRM \S+: clean_demo=(\S+) patched_demo=(\S+) tests=\[(.*)\]", out)
    res = dict(command="lib/confirm_seed.sh seeded/%s" % name, when=time.strftime("%Y-%m-%d %H:%M"))
    if not m:
        res["error"] = out[-400:]
        return res
    res.update(clean_demo_exit=m.group(1), patched_demo_exit=m.group(2), pinned_suite_with_patch=m.group(3))
    if "failed: 9 - db," in m.group(3) and m.group(3).count(" - ") == 1:
        res["note"] = ("only t-db failed in the loaded full run (its load-sensitive assertion t-db.c:1807 also fails on the "
                       "unchanged tree under load, DESIGN.md 8.5); re-run alone below")
        res["t_db_alone"] = tdb_alone(name)
    return res


def tdb_alone(name):
    w = "/tmp/tdb-%d-%s" % (os.getpid(), name[:12])
    sh("rm -rf %s; mkdir -p %s/src %s/tmp; git -C /repo archive HEAD | tar -x -C %s/src; cd %s/src && patch -p1 -s < %s/%s/patch.diff"
       % (w, w, w, w, w, SEEDED, name))
    sh("cmake -G Ninja -S %s/src -B %s/b -DCMAKE_BUILD_TYPE=RelWithDebInfo && cmake --build %s/b -j8" % (w, w, w))
    res = []
    for _ in range(3):
        out = sh("TEST_TMPDIR=%s/tmp ctest --test-dir %s/b -R '^db$' --timeout 1500 2>&1 | tail -5" % (w, w))
        ok = "100% tests passed" in out
        res.append("passed" if ok else "failed")
        if ok:
            break
    sh("rm -rf %s" % w)
    return res


def run_checks(name, seed="1"):
    prop, props, needs, _ = S[name]
    out = sh([sys.executable, os.path.join(VERIF, "lib", "seedrun.py"), "--patch", os.path.join(SEEDED, name, "patch.diff"),
              "--props", props, "--seed", seed])
    res = []
    for line in out.splitlines():
        try:
            j = json.loads(line)
        except ValueError:
            continue
        if "property" in j:
            res.append(dict(property=j["property"], tier="quick", seed=seed, exit=j["exit"],
                            violation_keys=j.get("violation_keys", {}), first_message=j.get("first_message", "")[:300],
                            wall_s=j.get("wall_s")))
    return dict(command="lib/seedrun.py --patch seeded/%s/patch.diff --props %s" % (name, props),
                when=time.strftime("%Y-%m-%d %H:%M"), verif_commit=sh("git -C %s rev-parse --short HEAD" % VERIF).strip(), results=res)


def import_logs(name):
    """round 3: lib/ingest_seed.sh left .confirm.log / .seedrun.log in the seed directory; turn them into meta.json"""
    d = os.path.join(SEEDED, name)
    upd = {}
    cl, rl = os.path.join(d, ".confirm.log"), os.path.join(d, ".seedrun.log")
    if os.path.exists(cl):
        out = open(cl).read()
        m = re.search(r"CONFIRM \S+: clean_demo=(\S+) patched_demo=(\S+) tests=\[(.*)\]", out)
        if m:
            res = dict(command="lib/confirm_seed.sh seeded/%s" % name, when=time.strftime("%Y-%m-%d %H:%M", time.localtime(os.path.getmtime(cl))),
                       clean_demo_exit=m.group(1), patched_demo_exit=m.group(2), pinned_suite_with_patch=m.group(3))
            if "failed: 9 - db," in m.group(3) and m.group(3).count(" - ") == 1:
                res["note"] = ("only t-db failed in the loaded full run (its load-sensitive assertion t-db.c:1807 also fails on the "
                               "unchanged tree under load, DESIGN.md 8.5); re-run alone below")
                res["t_db_alone"] = tdb_alone(name)
            upd["confirmed"] = res
    if os.path.exists(rl):
        res = []
        for line in open(rl).read().splitlines():
            try:
                j = json.loads(line)
            except ValueError:
                continue
            if "property" in j:
                res.append(dict(property=j["property"], tier="quick", seed="1", exit=j["exit"], violation_keys=j.get("violation_keys", {}),
                                first_message=j.get("first_message", "")[:300], wall_s=j.get("wall_s")))
        upd["checks_run_first"] = dict(note="first run, right after the change arrived (before any strengthening for it)",
                                       when=time.strftime("%Y-%m-%d %H:%M", time.localtime(os.path.getmtime(rl))), results=res)
    m = load_meta(name)
    m.update(upd)
    if "checks_run" not in m and "checks_run_first" in upd:
        m["checks_run"] = dict(upd["checks_run_first"], note="same as checks_run_first (no strengthening was needed)")
    save_meta(name, m)
    for f in (cl, rl):
        if os.path.exists(f):
            os.remove(f)
    sys.stderr.write("imported %s\n" % name)


def results_md():
    rows = []
    for name in sorted(S):
        m = load_meta(name)
        c = m.get("confirmed", {})
        r = m.get("checks_run") or m.get("checks_run_earlier", {})
        cells = "; ".join("%s: exit %s %s" % (x["property"], x["exit"], ", ".join(sorted(x["violation_keys"]))[:160]) for x in r.get("results", []))
        if "checks_run" not in m and cells:
            cells += " (earlier run, see meta.json)"
        tests = c.get("pinned_suite_with_patch", "?")
        if c.get("t_db_alone"):
            tests += " (t-db alone: %s)" % "/".join(c["t_db_alone"])
        rows.append("| %s | %s | demo clean=%s patched=%s; suite: %s | %s | %s |" % (
            name, S[name][0], c.get("clean_demo_exit", "?"), c.get("patched_demo_exit", "?"), tests, cells or "(not run)",
            S[name][3] or ""))
    with open(os.path.join(SEEDED, "RESULTS.md"), "w") as f:
        f.write("# Seeded changes: confirmation and which quick check reports them\n\n"
                "Written by lib/seedmatrix.py from seeded/*/meta.json.  `exit 1` = reported, `exit 0` = missed by the quick tier, "
                "`exit 2` = inconclusive.\n\n| seeded change | property | confirmation (my own run) | quick checks run against it | strengthening it led to |\n"
                "|---|---|---|---|---|\n" + "\n".join(rows) + "\n")


def main():
    args = sys.argv[1:]
    do_confirm = "--confirm" in args
    do_run = "--run" in args
    if "--import-logs" in args:
        for n in sorted(S):
            if os.path.exists(os.path.join(SEEDED, n, ".confirm.log")) or os.path.exists(os.path.join(SEEDED, n, ".seedrun.log")):
                import_logs(n)
        results_md()
        return 0
    jobs = 1
    if "--jobs" in args:
        jobs = int(args[args.index("--jobs") + 1])
        del args[args.index("--jobs"):args.index("--jobs") + 2]
    want = [a for a in args if not a.startswith("--")]
    names = [n for n in sorted(S) if os.path.isdir(os.path.join(SEEDED, n)) and (not want or any(w in n for w in want))]
    missing = [n for n in os.listdir(SEEDED) if os.path.isdir(os.path.join(SEEDED, n)) and n not in S]
    if missing:
        sys.stderr.write("not in the table: %s\n" % missing)

    def one(name):
        # long steps first, then re-read meta.json and merge (another seedmatrix process may have written meanwhile)
        upd = {}
        if do_confirm:
            upd["confirmed"] = confirm(name)
            sys.stderr.write("confirm %s: %s\n" % (name, json.dumps(upd["confirmed"])[:300]))
        if do_run:
            upd["checks_run"] = run_checks(name)
            sys.stderr.write("run %s: %s\n" % (name, "; ".join("%s exit %s" % (x["property"], x["exit"]) for x in upd["checks_run"]["results"])))
        m = load_meta(name)
        m.update(upd)
        save_meta(name, m)

    with ThreadPoolExecutor(max_workers=jobs) as ex:
        list(ex.map(one, names))
    results_md()
    return 0


if __name__ == "__main__":
    sys.exit(main())

"""Job runner, result aggregation, evidence writer and known-finding matcher."""
import concurrent.futures
import json
import os
import re
import shutil
import signal
import subprocess
import sys
import time

VERIF = os.path.dirname(os.path.dirname(os.path.abspath(__file__)))
NPROC = int(os.environ.get("VERIF_JOBS", "16"))


def scratch_root():
    base = "/dev/shm" if os.path.isdir("/dev/shm") and os.access("/dev/shm", os.W_OK) else \
        os.environ.get("TMPDIR", "/var/tmp")
    d = os.path.join(base, "verif-%d" % os.getpid())
    os.makedirs(d, exist_ok=True)
    return d


class Job:
    def __init__(self, cmd, tag, env=None, timeout=900, meta=None, cwd=None):
        self.cmd = cmd
        self.tag = tag
        self.env = env
        self.timeout = timeout
        self.meta = meta or {}
        self.cwd = cwd


class Result:
    def __init__(self, job):
        self.job = job
        self.rc = None
        self.signal = None
        self.timed_out = False
        self.lines = []
        self.done = False
        self.stderr_tail = ""
        self.wall = 0.0


def _run_one(job):
    res = Result(job)
    env = dict(os.environ)
    if job.env:
        env.update(job.env)
    t0 = time.time()
    try:
        p = subprocess.Popen(job.cmd, stdout=subprocess.PIPE, stderr=subprocess.PIPE, env=env,
                             cwd=job.cwd, start_new_session=True)
    except OSError as e:
        res.rc = 127
        res.stderr_tail = str(e)
        return res
    try:
        out, err = p.communicate(timeout=job.timeout)
    except subprocess.TimeoutExpired:
        res.timed_out = True
        try:
            os.killpg(p.pid, signal.SIGKILL)
        except OSError:
            pass
        out, err = p.communicate()
    res.wall = time.time() - t0
    rc = p.returncode
    if rc is not None and rc < 0:
        res.signal = -rc
    res.rc = rc
    for line in out.decode(errors="replace").splitlines():
        line = line.strip()
        if not line.startswith("{"):
            continue
        try:
            obj = json.loads(line)
        except ValueError:
            continue
        if obj.get("t") == "done":
            res.done = True
        res.lines.append(obj)
    res.stderr_tail = err.decode(errors="replace")[-6000:]
    return res


def run_jobs(jobs, nproc=None, progress=True):
    nproc = nproc or NPROC
    results = []
    t0 = time.time()
    with concurrent.futures.ThreadPoolExecutor(max_workers=nproc) as ex:
        futs = [ex.submit(_run_one, j) for j in jobs]
        for n, f in enumerate(concurrent.futures.as_completed(futs)):
            results.append(f.result())
    # one retry for timeouts (a loaded machine must not decide a verdict)
    retry = [r for r in results if r.timed_out]
    if retry:
        sys.stderr.write("[runner] %d job(s) hit the watchdog; retrying once\n" % len(retry))
        results = [r for r in results if not r.timed_out]
        with concurrent.futures.ThreadPoolExecutor(max_workers=max(1, nproc // 2)) as ex:
            for r in ex.map(_run_one, [r.job for r in retry]):
                r.job.meta["retried"] = True
                results.append(r)
    if progress:
        sys.stderr.write("[runner] %d jobs in %.1fs\n" % (len(jobs), time.time() - t0))
        if os.environ.get("VERIF_TIMING"):
            for r in sorted(results, key=lambda r: -r.wall)[:12]:
                sys.stderr.write("[runner]   %6.1fs  %s\n" % (r.wall, r.job.tag))
    return results


class Agg:
    """Aggregated observations of a set of harness processes."""

    def __init__(self):
        self.counts = {}
        self.distinct = {}
        self.samples = {}
        self.violations = []   # dicts: prop,key,msg,ctx,job
        self.fatals = []
        self.crashes = []      # dicts: job, signal, rc, stderr
        self.timeouts = []
        self.notes = []
        self.jobs = 0
        self.sanitizer_reports = []

    def add(self, results):
        for r in results:
            self.jobs += 1
            for o in r.lines:
                t = o.get("t")
                if t == "count":
                    self.counts[o["k"]] = self.counts.get(o["k"], 0) + int(o["v"])
                elif t == "distinct":
                    self.distinct.setdefault(o["set"], set()).update(o["h"])
                elif t == "sample":
                    self.samples.setdefault(o.get("prop", ""), []).append(o["v"])
                elif t == "viol":
                    v = dict(o)
                    v["job"] = r.job
                    self.violations.append(v)
                elif t == "fatal":
                    self.fatals.append(dict(msg=o.get("msg"), ctx=o.get("ctx"), job=r.job))
                elif t == "note":
                    self.notes.append(o.get("v"))
            if r.timed_out:
                self.timeouts.append(r)
            elif r.rc == 127 and not r.lines:
                self.fatals.append(dict(msg="could not execute monitor: " + r.stderr_tail[-300:], ctx="", job=r.job))
            elif r.rc == 2 and not r.done:
                if not any(f["job"] is r.job for f in self.fatals):
                    self.fatals.append(dict(msg="exit 2: " + r.stderr_tail[-500:], ctx="", job=r.job))
            elif not r.done:
                self.crashes.append(dict(job=r.job, signal=r.signal, rc=r.rc, stderr=r.stderr_tail))
        return self

    def n(self, k):
        return self.counts.get(k, 0)

    def d(self, s):
        return len(self.distinct.get(s, ()))


def load_known():
    p = os.path.join(VERIF, "known_findings.json")
    if not os.path.exists(p):
        return []
    with open(p) as f:
        data = json.load(f)
    return data.get("findings", [])


def match_known(prop, key, known):
    for k in known:
        if k.get("property") == prop and k.get("key") == key:
            return k
    return None


_frame_re = re.compile(r"#\d+\s+0x[0-9a-f]+\s+in\s+(\S+)")


def sanitizer_key(stderr):
    """Signature of the first sanitizer report in a stderr blob: kind + top lcdb frames."""
    kind = None
    m = re.search(r"ERROR: (AddressSanitizer|LeakSanitizer|ThreadSanitizer): ([a-zA-Z\- ]+)", stderr)
    if m:
        kind = "%s:%s" % (m.group(1), m.group(2).strip().split(" on ")[0].replace(" ", "-"))
    else:
        m = re.search(r"WARNING: ThreadSanitizer: ([a-zA-Z\- ]+)", stderr)
        if m:
            kind = "tsan:" + m.group(1).strip().replace(" ", "-")
        else:
            m = re.search(r"runtime error: ([^\n]+)", stderr)
            if m:
                kind = "ubsan:" + re.sub(r"0x[0-9a-f]+|\d+", "N", m.group(1))[:80]
    if kind is None:
        return None
    frames = [f for f in _frame_re.findall(stderr) if f.startswith(("ldb_", "rb_", "snappy", "crc32c"))][:2]
    return kind + ("@" + ">".join(frames) if frames else "")


def write_replay(prop, idx, payload):
    d = os.path.join(VERIF, "replays")
    os.makedirs(d, exist_ok=True)
    p = os.path.join(d, "%s-%d-%d.json" % (prop, os.getpid(), idx))
    with open(p, "w") as f:
        json.dump(payload, f, indent=1, default=str)
    return p


def finish(prop, level, tier, seed, t0, agg, rule, evaluations, distinct_nontrivial, extras=None,
           floors=None, assumptions=None, crash_is_violation=True, extra_violations=None, exhaustive=None):
    """Write evidence, print verdict lines, return exit code."""
    known = load_known()
    viols = [v for v in agg.violations if v.get("prop") == prop]
    if extra_violations:
        viols += extra_violations
    out_lines = []
    new = {}
    known_hit = {}
    for v in viols:
        k = match_known(prop, v.get("key"), known)
        if k is not None:
            known_hit.setdefault(v["key"], (k, v))
        else:
            new.setdefault(v["key"], []).append(v)
    harness_fail = []
    for c in agg.crashes:
        skey = sanitizer_key(c["stderr"] or "")
        key = skey or ("crash:signal-%s" % c["signal"] if c["signal"] else "crash:exit-%s" % c["rc"])
        v = dict(prop=prop, key=key, msg="monitor process died: rc=%s signal=%s\n%s" % (
            c["rc"], c["signal"], (c["stderr"] or "")[-3000:]), ctx=" ".join(c["job"].cmd), job=c["job"])
        if not crash_is_violation:
            harness_fail.append(v)
            continue
        k = match_known(prop, key, known)
        if k is not None:
            known_hit.setdefault(key, (k, v))
        else:
            new.setdefault(key, []).append(v)
    for f in agg.fatals:
        harness_fail.append(dict(key="harness-fatal", msg=f["msg"], ctx=f["ctx"], job=f["job"]))
    for r in agg.timeouts:
        harness_fail.append(dict(key="watchdog", msg="watchdog expired twice (inconclusive)", ctx=" ".join(r.job.cmd),
                                 job=r.job))

    for key, (k, v) in sorted(known_hit.items()):
        out_lines.append("KNOWN-FINDING: property=%s %s [%s]" % (prop, k.get("what_fails", ""), key))
    idx = 0
    for key, vs in sorted(new.items()):
        v = vs[0]
        job = v.get("job")
        payload = dict(property=prop, key=key, occurrences=len(vs), message=v.get("msg"), context=v.get("ctx"),
                       seed=seed, tier=tier, cmd=job.cmd if job else None, meta=job.meta if job else None,
                       env=job.env if job else None,
                       more=[x.get("msg") for x in vs[1:6]])
        p = write_replay(prop, idx, payload)
        idx += 1
        out_lines.append("VIOLATION property=%s replay=%s" % (prop, p))
        sys.stderr.write("[%s] violation key=%s (%d occurrence(s))\n  %s\n" % (
            prop, key, len(vs), (v.get("msg") or "")[:1500]))

    floor_fail = []
    if floors and not new:
        for name, (have, need) in floors.items():
            if have < need:
                floor_fail.append("%s=%s < floor %s" % (name, have, need))

    samples = agg.samples.get(prop, [])[:6]
    if not samples:
        samples = [s for ss in agg.samples.values() for s in ss][:4]
    if not samples:
        samples = ["(no sample emitted)"]
    coverage = dict(evaluations=int(evaluations), distinct_nontrivial=int(distinct_nontrivial), rule=rule,
                    samples=samples)
    if exhaustive is not None:
        coverage["exhaustive"] = bool(exhaustive)
    if extras:
        coverage.update(extras)
    coverage["monitor_processes"] = agg.jobs
    coverage["known_findings_observed"] = sorted(known_hit.keys())
    ev = dict(property_id=prop, tier=tier, seed=int(seed), level=level, coverage=coverage,
              assumptions=assumptions or [], wall_s=round(time.time() - t0, 2), violations=len(new))
    # checks against seeded/mutated scratch copies (lib/seedrun.py) must not overwrite the committed evidence
    evdir = os.environ.get("VERIF_EVIDENCE_DIR") or os.path.join(VERIF, "evidence")
    os.makedirs(evdir, exist_ok=True)
    with open(os.path.join(evdir, prop + ".json"), "w") as f:
        json.dump(ev, f, indent=1, sort_keys=True)
        f.write("\n")

    for l in out_lines:
        print(l)
    if new:
        print("[%s] %s tier: %d new violation key(s), %d evaluations" % (prop, tier, len(new), evaluations))
        return 1
    if harness_fail:
        for h in harness_fail[:5]:
            sys.stderr.write("[%s] INCONCLUSIVE (%s): %s\n   %s\n" % (prop, h["key"], (h["msg"] or "")[:1200], h["ctx"]))
        print("[%s] inconclusive: harness failure" % prop)
        return 2
    if floor_fail:
        print("[%s] inconclusive: observation floor not met: %s" % (prop, "; ".join(floor_fail)))
        return 2
    print("[%s] %s tier: held on %d evaluations (%d distinct non-trivial), %.1fs" % (
        prop, tier, evaluations, distinct_nontrivial, time.time() - t0))
    return 0

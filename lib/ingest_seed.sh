#!/bin/bash
# ingest_seed.sh <dir with out/ and wt/> <seed-name> <props,comma>  : copy a sub-agent's deliverables into seeded/<name>,
# confirm it (lib/confirm_seed.sh) and run the quick checks against it (lib/seedrun.py); logs in seeded/<name>/.ingest.log
set -u
src=$1; name=$2; props=$3
V=$(cd "$(dirname "$0")/.." && pwd)
d=$V/seeded/$name
mkdir -p $d
cp $src/out/patch.diff $src/out/demo.c $src/out/build_and_run.sh $src/out/README.md $d/ 2>/dev/null
cp $src/out/*.h $src/out/*.sh $src/out/*.c $d/ 2>/dev/null
chmod +x $d/build_and_run.sh
( bash $V/lib/confirm_seed.sh $d > $d/.confirm.log 2>&1 ) &
( python3 $V/lib/seedrun.py --patch $d/patch.diff --props $props > $d/.seedrun.log 2>&1 ) &
wait
echo "== $name"; cat $d/.confirm.log | grep CONFIRM; cut -c1-600 $d/.seedrun.log

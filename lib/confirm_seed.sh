#!/bin/bash
# Confirm a seeded change independently of the sub-agent that wrote it:
#   confirm_seed.sh <dir with patch.diff, demo.c, build_and_run.sh> [skip-tests]
# 1. scratch copy of /repo HEAD builds; demo exits 0 on it
# 2. patch applies, patched tree builds, demo exits non-zero
# 3. the pinned test suite passes on the patched tree (private TEST_TMPDIR)
# Prints one line "CONFIRM <dir>: clean_demo=<rc> patched_demo=<rc> tests=<passed>/<total>" and removes the scratch copy.
set -u
seed=$(readlink -f "$1")
skip=${2:-}
w=/tmp/confirm-$$
rm -rf $w; mkdir -p $w/clean $w/patched $w/tmp
git -C /repo archive HEAD | tar -x -C $w/clean
git -C /repo archive HEAD | tar -x -C $w/patched
if ! (cd $w/patched && patch -p1 -s < "$seed/patch.diff"); then echo "CONFIRM $seed: patch does not apply"; rm -rf $w; exit 2; fi
for t in clean patched; do
  cmake -G Ninja -S $w/$t -B $w/$t/_b -DCMAKE_BUILD_TYPE=RelWithDebInfo >/dev/null 2>&1
  if [ "$t" = clean ]; then cmake --build $w/$t/_b -j8 --target lcdb_static >/dev/null 2>&1; else cmake --build $w/$t/_b -j8 >/dev/null 2>&1; fi
  if [ ! -f $w/$t/_b/liblcdb.a ]; then echo "CONFIRM $seed: $t tree does not build"; rm -rf $w; exit 2; fi
done
cp -r "$seed" $w/demo
run_demo() { # $1 = tree
  (cd $w/demo && TMPDIR=$w/tmp TEST_TMPDIR=$w/tmp timeout 900 bash ./build_and_run.sh $w/$1/_b/liblcdb.a $w/$1/include > $w/demo-$1.log 2>&1; echo $?)
}
rc_clean=$(run_demo clean)
rc_patched=$(run_demo patched)
tests="skipped"
if [ -z "$skip" ]; then
  mkdir -p $w/ttmp
  out=$(TEST_TMPDIR=$w/ttmp ctest --test-dir $w/patched/_b -j6 --timeout 1500 2>&1 | tail -14)
  tests=$(echo "$out" | grep -o "[0-9]*% tests passed, [0-9]* tests failed out of [0-9]*" | head -1)
  if [ -z "$tests" ]; then tests="no summary: $(echo "$out" | tr '\n' ' ' | cut -c1-300)"; fi
  failed=$(echo "$out" | grep -A8 "The following tests FAILED" | grep -o "[0-9]* - [a-z_0-9]*" | tr '\n' ',')
  if [ -n "$failed" ]; then tests="$tests; failed: $failed"; fi
fi
echo "CONFIRM $seed: clean_demo=$rc_clean patched_demo=$rc_patched tests=[$tests]"
tail -3 $w/demo-patched.log | sed 's/^/    patched demo: /'
rm -rf $w

"""E1 - build flavours of liblcdb.a and the harness binaries from the CURRENT
working tree of the repository.  Content-hash keyed cache under /verif/.build
(plain timestamp logic is not trusted: `git apply` / `git checkout` of a mutant
changes file contents in ways make-style mtime checks can miss)."""
import fcntl
import hashlib
import os
import shutil
import subprocess
import sys
import time

VERIF = os.path.dirname(os.path.dirname(os.path.abspath(__file__)))
REPO = os.environ.get("VERIF_REPO", "/repo")
BUILD_ROOT = os.environ.get("VERIF_BUILD", os.path.join(VERIF, ".build"))
GUARD = "LDB_VERIF"

COMMON_WARN = "-Wno-unused-parameter"

FLAVOURS = {
    # pinned flags of the repository's RelWithDebInfo build + hooks
    "rel": dict(cc="gcc", cflags="-O2 -g -DNDEBUG -D%s" % GUARD, ldflags=""),
    "asan": dict(
        cc="gcc",
        cflags="-O1 -g -fno-omit-frame-pointer -fsanitize=address,undefined "
               "-fno-sanitize-recover=all -DNDEBUG -D%s" % GUARD,
        ldflags="-fsanitize=address,undefined"),
    "tsan": dict(cc="gcc", cflags="-O1 -g -fsanitize=thread -DNDEBUG -D%s" % GUARD,
                 ldflags="-fsanitize=thread"),
    "ctsan": dict(cc="clang", cflags="-O1 -g -fsanitize=thread -DNDEBUG -D%s" % GUARD,
                  ldflags="-fsanitize=thread"),
    "dbg": dict(cc="gcc", cflags="-O1 -g -D%s" % GUARD, ldflags=""),
    "fuzz": dict(
        cc="clang",
        cflags="-O1 -g -fno-omit-frame-pointer -fsanitize=fuzzer-no-link,address,undefined "
               "-fno-sanitize-recover=all -fno-sanitize=object-size -DNDEBUG -D%s" % GUARD,
        ldflags="-fsanitize=fuzzer,address,undefined"),
}


def log(msg):
    sys.stderr.write("[build] %s\n" % msg)
    sys.stderr.flush()


def _hash_tree(h, root, subdirs):
    for sub in subdirs:
        p = os.path.join(root, sub)
        if os.path.isfile(p):
            h.update(sub.encode())
            with open(p, "rb") as f:
                h.update(f.read())
            continue
        for d, dirs, files in sorted(os.walk(p)):
            dirs.sort()
            for fn in sorted(files):
                fp = os.path.join(d, fn)
                h.update(os.path.relpath(fp, root).encode())
                try:
                    with open(fp, "rb") as f:
                        h.update(f.read())
                except OSError:
                    pass


def repo_hash():
    h = hashlib.sha256()
    _hash_tree(h, REPO, ["src", "include", "cmake", "CMakeLists.txt"])
    return h.hexdigest()[:16]


class Lock:
    def __init__(self, path):
        self.path = path

    def __enter__(self):
        os.makedirs(os.path.dirname(self.path), exist_ok=True)
        self.f = open(self.path, "w")
        fcntl.flock(self.f, fcntl.LOCK_EX)
        return self

    def __exit__(self, *a):
        fcntl.flock(self.f, fcntl.LOCK_UN)
        self.f.close()


def _prune(flavour, keep):
    """Delete older hashes of the same flavour to bound disk use."""
    try:
        for d in os.listdir(BUILD_ROOT):
            if d.startswith(flavour + "-") and d != keep and not d.endswith(".lock"):
                shutil.rmtree(os.path.join(BUILD_ROOT, d), ignore_errors=True)
    except OSError:
        pass


def build_lib(flavour):
    """Return (dir, path to liblcdb.a) for this flavour, built from REPO now."""
    fl = FLAVOURS[flavour]
    h = hashlib.sha256()
    h.update(repo_hash().encode())
    h.update(repr(sorted(fl.items())).encode())
    key = "%s-%s" % (flavour, h.hexdigest()[:12])
    bdir = os.path.join(BUILD_ROOT, key)
    lib = os.path.join(bdir, "liblcdb.a")
    with Lock(os.path.join(BUILD_ROOT, flavour + ".lock")):
        if os.path.exists(lib) and os.path.exists(os.path.join(bdir, ".ok")):
            return bdir, lib
        _prune(flavour, key)
        shutil.rmtree(bdir, ignore_errors=True)
        os.makedirs(bdir)
        t0 = time.time()
        cmd = ["cmake", "-G", "Ninja", "-S", REPO, "-B", bdir,
               "-DCMAKE_BUILD_TYPE=None", "-DCMAKE_C_COMPILER=" + fl["cc"],
               "-DCMAKE_C_FLAGS=" + fl["cflags"],
               "-DLDB_TESTS=OFF", "-DLDB_BENCH=OFF"]
        r = subprocess.run(cmd, stdout=subprocess.PIPE, stderr=subprocess.STDOUT)
        if r.returncode != 0:
            sys.stderr.write(r.stdout.decode(errors="replace"))
            raise BuildError("cmake configure failed for flavour %s" % flavour)
        r = subprocess.run(["cmake", "--build", bdir, "--target", "lcdb_static", "-j", "16"],
                           stdout=subprocess.PIPE, stderr=subprocess.STDOUT)
        if r.returncode != 0 or not os.path.exists(lib):
            sys.stderr.write(r.stdout.decode(errors="replace")[-8000:])
            raise BuildError("library build failed for flavour %s" % flavour)
        open(os.path.join(bdir, ".ok"), "w").close()
        log("built %s in %.1fs" % (key, time.time() - t0))
    return bdir, lib


class BuildError(Exception):
    pass


WRAP_IO = ("open open64 creat close read pread pread64 write lseek lseek64 fsync fdatasync "
           "unlink rename mkdir rmdir link stat fstat access opendir mmap").split()
WRAP_SCHED = ("pthread_create pthread_join pthread_mutex_init pthread_mutex_destroy "
              "pthread_mutex_lock pthread_mutex_unlock pthread_cond_init "
              "pthread_cond_destroy pthread_cond_wait pthread_cond_signal "
              "pthread_cond_broadcast select").split()


def build_harness(name, flavour, sources, wrap=(), extra_cflags="", extra_ldflags="", defines=()):
    """Compile harness sources (relative to /verif/harness) with the flavour's
    flags, link against the flavour's liblcdb.a with -Wl,--wrap for `wrap`."""
    fl = FLAVOURS[flavour]
    bdir, lib = build_lib(flavour)
    hdir = os.path.join(VERIF, "harness")
    h = hashlib.sha256()
    _hash_tree(h, hdir, sorted(os.listdir(hdir)))
    h.update(repr((sorted(sources), sorted(wrap), extra_cflags, extra_ldflags, sorted(defines))).encode())
    key = h.hexdigest()[:12]
    out = os.path.join(bdir, "bin", "%s-%s" % (name, key))
    with Lock(os.path.join(bdir, "bin", name + ".lock")):
        if os.path.exists(out):
            return out
        # drop stale binaries of this harness (not recent ones: another check may be running them)
        for f in os.listdir(os.path.join(bdir, "bin")):
            if f.startswith(name + "-") and not f.endswith(".tmp"):
                fp = os.path.join(bdir, "bin", f)
                try:
                    if time.time() - os.path.getmtime(fp) > 6 * 3600:
                        os.unlink(fp)
                except OSError:
                    pass
        t0 = time.time()
        srcs = [os.path.join(hdir, s) for s in sources]
        cmd = [fl["cc"]] + fl["cflags"].split() + extra_cflags.split() + [
            "-D_GNU_SOURCE", "-DLDB_PTHREAD", "-std=gnu99", "-Wall", COMMON_WARN,
            "-I", os.path.join(REPO, "include"), "-I", os.path.join(REPO, "src"), "-iquote", hdir]
        cmd += ["-D" + d for d in defines]
        cmd += srcs + [lib]
        if wrap:
            cmd.append("-Wl," + ",".join("--wrap=" + w for w in wrap))
        cmd += fl["ldflags"].split() + extra_ldflags.split() + ["-lpthread", "-lm", "-o", out + ".tmp"]
        r = subprocess.run(cmd, stdout=subprocess.PIPE, stderr=subprocess.STDOUT)
        if r.returncode != 0:
            sys.stderr.write(r.stdout.decode(errors="replace")[-12000:])
            raise BuildError("harness %s (%s) failed to compile" % (name, flavour))
        os.rename(out + ".tmp", out)
        log("linked %s/%s in %.1fs" % (flavour, name, time.time() - t0))
    return out

#!/usr/bin/env python3
"""Single entry point of the verification machinery.

  check.py <Cxx> --tier quick|thorough     run one property's check
  check.py <Cxx> --replay <file>           re-execute a recorded violating case
  check.py --setup                         pre-build every flavour and harness
  check.py --list

Environment: VERIF_SEED (default 1), VERIF_TIER, VERIF_REPO (default /repo),
VERIF_JOBS (default 16).  Exit 0 held / 1 violation / 2 inconclusive.
"""
import argparse
import json
import os
import shutil
import sys
import time

HERE = os.path.dirname(os.path.abspath(__file__))
sys.path.insert(0, os.path.join(HERE, "lib"))

import build      # noqa: E402
import runner     # noqa: E402
import props      # noqa: E402


def main():
    ap = argparse.ArgumentParser()
    ap.add_argument("prop", nargs="?")
    ap.add_argument("--tier", default=os.environ.get("VERIF_TIER", "quick"), choices=["quick", "thorough"])
    ap.add_argument("--replay")
    ap.add_argument("--setup", action="store_true")
    ap.add_argument("--list", action="store_true")
    args = ap.parse_args()
    seed = int(os.environ.get("VERIF_SEED", "1") or "1")

    if args.list:
        for p in sorted(props.REGISTRY):
            print(p, props.REGISTRY[p].__doc__.strip().splitlines()[0] if props.REGISTRY[p].__doc__ else "")
        return 0
    if args.setup:
        t0 = time.time()
        try:
            props.setup()
        except build.BuildError as e:
            print("setup failed: %s" % e)
            return 2
        print("setup done in %.1fs" % (time.time() - t0))
        return 0
    if not args.prop or args.prop not in props.REGISTRY:
        ap.error("unknown property; use --list")

    scratch = runner.scratch_root()
    try:
        ctx = props.Ctx(prop=args.prop, tier=args.tier, seed=seed, scratch=scratch, replay=args.replay)
        try:
            return props.REGISTRY[args.prop](ctx)
        except build.BuildError as e:
            print("[%s] inconclusive: build failed: %s" % (args.prop, e))
            return 2
    finally:
        shutil.rmtree(scratch, ignore_errors=True)


if __name__ == "__main__":
    sys.exit(main())
